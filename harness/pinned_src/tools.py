import sys as _sys
import typing as _typing

from cryptography.hazmat.backends import default_backend as _default_backend
from cryptography.hazmat.primitives.ciphers import Cipher as _Cipher
from cryptography.hazmat.primitives.ciphers import algorithms as _algorithms
from cryptography.hazmat.primitives.ciphers import modes as _modes

__all__ = [
    "xor",
    "odd_parity",
    "adjust_key_parity",
    "key_check_digits",
    "encrypt_tdes_cbc",
    "encrypt_tdes_ecb",
]


def xor(data: bytes, key: bytes) -> bytes:
    r"""Apply "exlusive or" to two bytes instances.

    Many thanks:
    https://stackoverflow.com/a/29409299

    Parameters
    ----------
    data : bytes
        Data to be XOR'd
    key : bytes
        Bit mask used to XOR data

    Returns
    -------
    bytes
        Data XOR'd by key
    """
    key = key[: len(data)]
    int_var = int.from_bytes(data, _sys.byteorder)
    int_key = int.from_bytes(key, _sys.byteorder)
    int_enc = int_var ^ int_key
    return int_enc.to_bytes(len(data), _sys.byteorder)


def odd_parity(v: int) -> int:
    r"""Check integer parity.

    Many thanks: in_parallel
    http://p-nand-q.com/python/_algorithms/math/bit-parity.html

    Parameters
    ----------
    v : int
        Integer to check parity of

    Returns
    -------
    int
        0 = even parity (even number of bits enabled, e.g. 0, 3, 5)
        1 = odd parity (odd number of bits enabled, e.g. 1, 2, 4)
    """
    v ^= v >> 16
    v ^= v >> 8
    v ^= v >> 4
    v &= 0xF
    return (0x6996 >> v) & 1


def adjust_key_parity(key: _typing.Union[bytes, bytearray]) -> bytes:
    r"""Adjust DES key parity key.

    Parameters
    ----------
    key : bytes, bytearray
        Binary key to adjust for odd parity.

    Returns
    -------
    adjusted_key : bytes
        Binary key adjusted for odd parity.

    Examples
    --------
    >>> from pyemv import tools
    >>> key = bytes.fromhex("1A2B3C4D5F0A1B2C4D5F6A7B8C9D0F1A")
    >>> tools.adjust_key_parity(key).hex().upper()
    '1A2A3D4C5E0B1A2C4C5E6B7A8C9D0E1A'
    """
    adjusted_key = bytearray(key)

    for i, byte in enumerate(adjusted_key):
        if not odd_parity(byte):
            adjusted_key[i] ^= 1

    return bytes(adjusted_key)


def key_check_digits(key: bytes, length: int = 2) -> bytes:
    r"""Calculate Triple DES key check digits.

    Parameters
    ----------
    key : bytes
        Binary key to provide check digits for. Has to be a valid DES key.
    length : int, optional
        Number of key check digits bytes provided in the response (default 2).

    Returns
    -------
    check_digits : bytes
        Binary check digits (`length` bytes)

    Examples
    --------
    >>> from pyemv import tools
    >>> key = bytes.fromhex("0123456789ABCDEFFEDCBA9876543210")
    >>> tools.key_check_digits(key).hex().upper()
    '08D7'
    """
    cipher = _Cipher(
        _algorithms.TripleDES(key), _modes.ECB(), backend=_default_backend()
    )
    encryptor = cipher.encryptor()
    return encryptor.update(b"\x00\x00\x00\x00\x00\x00\x00\x00")[:length]


def encrypt_tdes_cbc(key: bytes, iv: bytes, data: bytes) -> bytes:
    r"""Encrypt data using Triple DES CBC algorithm.

    Parameters
    ----------
    key : bytes
        Binary Triple DES key. Has to be a valid DES key.
    iv : bytes
        Binary initial initialization vector for CBC.
    data : bytes
        Binary data to be encrypted.

    Returns
    -------
    encrypted_data : bytes
        Binary encrypted data.

    Examples
    --------
    >>> from pyemv.tools import encrypt_tdes_cbc
    >>> key = bytes.fromhex("0123456789ABCDEFFEDCBA9876543210")
    >>> iv = bytes.fromhex("0000000000000000")
    >>> encrypt_tdes_cbc(key, iv, b"12345678").hex().upper()
    '41D2FFBA3CDC15FE'
    """
    cipher = _Cipher(
        _algorithms.TripleDES(key),
        _modes.CBC(iv),
        backend=_default_backend(),
    )
    return cipher.encryptor().update(data)


def encrypt_tdes_ecb(key: bytes, data: bytes) -> bytes:
    r"""Encrypt data using Triple DES ECB algorithm.

    Parameters
    ----------
    key : bytes
        Binary Triple DES key. Has to be a valid DES key.
    data : bytes
        Binary data to be encrypted.

    Returns
    -------
    encrypted_data : bytes
        Binary encrypted data.

    Examples
    --------
    >>> from pyemv.tools import encrypt_tdes_ecb
    >>> key = bytes.fromhex("0123456789ABCDEFFEDCBA9876543210")
    >>> encrypt_tdes_ecb(key, b"12345678").hex().upper()
    '41D2FFBA3CDC15FE'
    """
    cipher = _Cipher(
        _algorithms.TripleDES(key), _modes.ECB(), backend=_default_backend()
    )
    return cipher.encryptor().update(data)
