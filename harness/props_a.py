"""Property checks C01-C07 (functional refinement of the MAC / key derivation / script functions)."""
from core import Case, hx, ac, kd, mac, sm, tools, tlv, run_model, canon
from gens import *  # noqa: F401,F403
import gens


def lens_grid(ctx):
    ls = list(range(0, 65))
    top = 4096 if ctx.thorough else 512
    k = 72
    while k <= top:
        ls += [k - 1, k, k + 1]
        k += 8 if k < 256 else 64 if k < 1024 else 512
    return ls


def C01(ctx):
    g = G(ctx.sub("g")); R = g.R
    cases = []
    # the padding helpers of the anchor with the default block size
    for n in range(0, 20):
        d = R.randbytes(n)
        cases.append(op_pad(1, d, None, gen="pad default block size")); cases.append(op_pad(2, d, None, gen="pad default block size"))
    k_eq = g.keys[5]; k_a = g.keys[0]
    for n in lens_grid(ctx):
        for key in (k_a, k_eq):
            d = R.randbytes(n)
            for p in ("EMV", "VISA", "-"):
                for l in (None, 4, 5, 6, 7, 8):
                    if n > 64 and l not in (None, 5):
                        continue
                    cases.append(op_generate_ac(key, d, p, l, gen="grid:len×pad×outlen"))
    ctx.exhaustive_dims.append("message length 0..64 × {EMV,VISA,default} × output length {default,4..8} × {distinct halves, equal halves}")
    # the cipher input vanishes (or is all ones) at one block: the plaintext block equals the chaining value there
    for _ in range(ctx.n(150, 1500)):
        k = g.key()
        if len(k) != 16:
            continue
        nb = R.randrange(2, 7)
        d = gens.cbc_fixed_point_message(R, k[:8], nb, None, R.choice([bytes(8), bytes(8), b"\xff" * 8]))
        cases.append(op_generate_ac(k, d, R.choice(["EMV", "VISA", "-"]), R.choice([None, 4, 8]), gen="cipher input vanishes at a block"))
    # generated, with argument reuse (same key/message/padding under different output lengths)
    for _ in range(ctx.n(6000, 60000)):
        k = g.key(); d = g.msg(120); p = R.choice(["EMV", "VISA", "-"]); l = R.choice([None, 4, 5, 6, 7, 8])
        cases.append(op_generate_ac(k, d, p, l, gen="random+reuse"))
        if R.random() < .3:
            l2 = R.choice([None, 4, 5, 6, 7, 8])
            cases.append(op_generate_ac(k, d, p, l2, gen="same call, other output length"))
        if R.random() < .2:
            k1, k2 = k[:8], k[8:]
            cases.append(op_mac3(k1, k2, d, R.choice([1, 2]), l, gen="mac3 direct"))
    # messages ending in padding-like bytes on block boundaries
    for _ in range(ctx.n(800, 8000)):
        n = 8 * R.randrange(1, 6); z = R.randrange(0, 8)
        d = R.randbytes(n - z - 1) + b"\x80" + bytes(z)
        cases.append(op_generate_ac(g.key(), d, R.choice(["EMV", "VISA"]), None, gen="ends in 80 00* at a block edge"))
    # beyond 64 KiB and at exactly 1 MiB (chunked back-end updates); run first *and* last so that whatever
    # a long call leaves behind is seen by the calls that follow it
    big = []
    for n in ([65536, 70001] if not ctx.thorough else [65535, 65536, 65537, 65544, 70001, 131072, 200001]):
        for p in (("VISA", "EMV") if n % 65536 == 0 else (R.choice(["EMV", "VISA"]),)):
            big.append(op_generate_ac(g.key(), R.randbytes(n), p, None, gen="message beyond 64 KiB / exactly k MiB"))
    cases = big[: len(big) // 2] + cases + big[len(big) // 2:]
    # out-of-domain stream (class only)
    for _ in range(ctx.n(600, 3000)):
        c = R.random()
        if c < .4:
            cases.append(op_generate_ac(g.badkey(), g.msg(), "EMV", None, gen="malformed:key", proj="class"))
        elif c < .7:
            cases.append(op_generate_ac(g.key(), g.msg(), "X", None, obj=R.choice([x for x in NON_MEMBERS if not isinstance(x, ac.PaddingType)]), gen="malformed:padding type", proj="class"))
        else:
            cases.append(op_mac3(g.key()[:8], g.key()[:8], g.msg(), R.choice([0, 3, -1, -2, 4, 255]), None, gen="malformed:mac padding", proj="class"))
    mib_probe(ctx, g, "before")
    ctx.run_cases(cases)
    mib_probe(ctx, g, "after")
    # relational: truncation is the leftmost bytes of the 8-byte value
    for _ in range(200):
        k = g.key(); d = g.msg()
        full = ac.generate_ac(k, d)
        for l in (4, 5, 6, 7, 8):
            ctx.check("leftmost truncation", ac.generate_ac(k, d, None, l) == full[:l],
                      f"generate_ac({hx(k)},{hx(d)},None,{l}) is not the {l} leftmost bytes of the 8-byte value")


def fast_alg3(k, padded):
    """Algorithm 3 over padded data using the library-independent CBC of `cryptography`"""
    from cryptography.hazmat.primitives.ciphers import Cipher, algorithms, modes
    h = Cipher(algorithms.TripleDES(k[:8] * 3), modes.CBC(bytes(8))).encryptor().update(padded)[-8:]
    d = Cipher(algorithms.TripleDES(k[8:] * 3), modes.ECB()).decryptor().update(h)
    return Cipher(algorithms.TripleDES(k[:8] * 3), modes.ECB()).encryptor().update(d)


def mib_probe(ctx, g, when):
    """messages of exactly k MiB and just beyond, against an independent reference (the Lean model is not
    run on megabyte inputs); executed before and after the main stream so that anything a long call leaves
    behind is seen by the calls that follow"""
    R = g.R
    for n in ([1 << 20, (1 << 20) + 5] if not ctx.thorough else [1 << 20, (1 << 20) + 5, (1 << 20) + 8, 1 << 21, 3 << 20]):
        d = R.randbytes(n); k = g.fresh_key()
        for pt, name in ((ac.PaddingType.VISA, "VISA"), (ac.PaddingType.EMV, "EMV")):
            padded = d + bytes(-n % 8) if name == "VISA" else d + b"\x80" + bytes(-(n + 1) % 8)
            with ctx.guard("cryptogram of a megabyte message", f"generate_ac {name} len={n} ({when})"):
                got = ac.generate_ac(k, d, pt)
                ctx.check("cryptogram of a megabyte message", got == fast_alg3(k, padded),
                          f"generate_ac(key={hx(k)}, <{n} bytes seed={ctx.seed}>, {name}) ({when} the main stream)")


def C02(ctx):
    g = G(ctx.sub("g")); R = g.R
    cases = []
    # refusals of the anchored functions (key, ARQC, response code, CSU of the wrong size): the class only
    for _ in range(ctx.n(120, 600)):
        k = R.choice([g.key(), g.badkey()])
        cases.append(op_arpc1(k, g.sized(8, .4), g.sized(2, .4), gen="malformed", proj="class"))
        cases.append(op_arpc2(k, g.sized(8, .4), g.sized(4, .4), R.choice([None, R.randbytes(R.randrange(0, 12))]), gen="malformed", proj="class"))
    for plen in [None] + list(range(0, 9)):
        for _ in range(ctx.n(60, 600)):
            k = g.key(); q = R.randbytes(8); csu = R.randbytes(4)
            p = None if plen is None else R.randbytes(plen)
            cases.append(op_arpc2(k, q, csu, p, gen="arpc2 pad length None,0..8"))
    ctx.exhaustive_dims.append("proprietary data length None,0..8")
    # ARQC || CSU || PAD ending in 80 00* (the bytes method-2 padding itself produces), every tail length
    for plen in range(0, 9):
        for k80 in range(1, 9):
            for _ in range(ctx.n(3, 20)):
                body = bytearray(R.randbytes(12 + plen))
                body[len(body) - k80:] = b"\x80" + bytes(k80 - 1)
                q, csu, p = bytes(body[:8]), bytes(body[8:12]), bytes(body[12:])
                cases.append(op_arpc2(g.key(), q, csu, p if plen or R.random() < .5 else None, gen="arqc||csu||pad ends in 80 00*"))
    ctx.exhaustive_dims.append("ARPC 2: proprietary data length 0..8 × trailing 80 00* of every length 1..8")
    # the cipher input vanishes at a block boundary: CSU||PAD (as padded) equals the chaining value after the ARQC block,
    # or the third block equals the second chaining value (a relation between key, ARQC and CSU / PAD)
    for _ in range(ctx.n(120, 1200)):
        k = g.key()
        if len(k) != 16:
            continue
        plen = R.choice([None, 0, 1, 3, 4, 4, 5, 8])
        n = 8 + 4 + (plen or 0)
        nb = (n + 1 + 7) // 8                              # blocks after method-2 padding
        at = R.randrange(1, nb)
        val = R.choice([bytes(8), bytes(8), b"\xff" * 8])
        m = bytearray(gens.cbc_fixed_point_message(R, k[:8], nb, at, val))
        pad_tail = b"\x80" + bytes(nb * 8 - n - 1)
        if bytes(m[n:]) != pad_tail:                        # the solved block overlaps the padding: solve the ARQC instead
            m[n:] = pad_tail
            if at == 1:
                from cryptography.hazmat.primitives.ciphers import Cipher, algorithms, modes
                want = bytes(x ^ y for x, y in zip(m[8:16], val))
                m[0:8] = Cipher(algorithms.TripleDES(k[:8]), modes.ECB()).decryptor().update(want)
        q, csu, p = bytes(m[:8]), bytes(m[8:12]), bytes(m[12:n])
        cases.append(op_arpc2(k, q, csu, None if plen is None else p, gen="cipher input vanishes at a block boundary"))
    for _ in range(ctx.n(4000, 40000)):
        k = g.key(); q = R.choice([R.randbytes(8), bytes(8), b"\xff" * 8])
        rc = R.choice([R.randbytes(2), b"\x00\x10", b"\x30\x30", b"\x01\x02", b"\xff\x00"])
        cases.append(op_arpc1(k, q, rc, gen="arpc1"))
    for _ in range(ctx.n(800, 4000)):
        c = R.random()
        if c < .3:
            cases.append(op_arpc1(g.badkey(), R.randbytes(8), R.randbytes(2), gen="malformed", proj="class"))
        elif c < .5:
            cases.append(op_arpc1(g.key(), g.sized(8, 1), g.sized(2, .5), gen="malformed", proj="class"))
        elif c < .7:
            cases.append(op_arpc2(g.key(), g.sized(8, .5), g.sized(4, .5), R.randbytes(R.randrange(0, 13)), gen="malformed", proj="class"))
        else:
            cases.append(op_arpc2(g.badkey(), R.randbytes(8), R.randbytes(4), None, gen="malformed", proj="class"))
    ctx.run_cases(cases)


def C03(ctx):
    g = G(ctx.sub("g")); R = g.R
    cases = []
    psns = [None] + [f"{i:02d}" for i in range(100)]
    for n in range(1, 20):
        for psn in (psns if ctx.thorough else [None, "00", "01", "45", "99", g.digits(2), g.digits(2)]):
            k = g.key(); pan = g.digits(n)
            for w in ("a", "b"):
                cases.append(op_mk(w, k, g.form(pan), g.form(psn), gen="grid:pan length 1..19 × psn"))
    ctx.exhaustive_dims.append("PAN length 1..19 × PSN sample (all of None,00..99 in thorough) × options A,B")
    for n in [20, 24, 33, 64, 100, 1000, 4298, 4299, 4300, 5000, 10001]:
        for w in ("a", "b"):
            cases.append(op_mk(w, g.key(), g.form(g.digits(n)), g.form(R.choice([None, "07"])), gen="PAN of 20..10001 digits"))
    rare, tries, letters = gens.rare_pairs(ctx.sub("rare"), ctx.n(60, 600))
    ctx.extra["rare_branch_pairs"] = len(rare); ctx.extra["rare_search_hashes"] = tries; ctx.extra["topup_letters_seen"] = letters
    for p, s in rare:
        for _ in range(2):
            cases.append(op_mk("b", g.key(), g.form(p), g.form(s), gen="searched: SHA-1 with <16 decimals"))
    # a half of the ICC master key that is a special DES key (weak, semi-weak, all zero / ones, up to parity): the 16
    # digits of PAN || PSN are solved for by decrypting the special value (kept when every nibble is decimal)
    nsolved = 0
    for _ in range(ctx.n(6, 30)):
        k = g.fresh_key()
        for x in gens.preimages_of_special_blocks(k, lambda x: all((b >> 4) < 10 and (b & 15) < 10 for b in x), limit=3):
            d = x.hex()
            for w in ("a", "b"):
                cases.append(op_mk(w, k, g.form(d[:14]), g.form(d[14:]), gen="master key half is a special DES key (solved)")); nsolved += 1
        for x in gens.preimages_of_special_blocks(k, lambda x: all((b >> 4) < 10 and (b & 15) < 10 for b in bytes(255 - c for c in x)), limit=2):
            d = bytes(255 - c for c in x).hex()                # the second half encrypts NOT Y
            cases.append(op_mk("a", k, g.form(d[:14]), g.form(d[14:]), gen="master key half is a special DES key (solved)")); nsolved += 1
    ctx.extra["special_master_key_halves_solved"] = nsolved
    # the far tail of the top-up branch: digests with very few decimal digits (parallel search; larger when a proof
    # obligation or the translation of this code no longer checks, and in the thorough tier)
    per = 4_000_000 if (getattr(ctx, "boost", False) or ctx.thorough) else 120_000
    ext, tried = gens.extreme_pairs(ctx.sub("extreme"), per)
    ctx.extra["extreme_search"] = {"hashes": tried, "found": len(ext), "fewest_decimal_digits": ext[0][0] if ext else None}
    for nd, p, s, _h in ext[:200]:
        for w in ("b", "b", "a"):
            cases.append(op_mk(w, g.key(), g.form(p), g.form(s), gen="searched: SHA-1 with <= 11 decimals"))
    for _ in range(ctx.n(8000, 80000)):
        k = g.key(); pan = g.digits(R.choice([1, 5, 12, 13, 14, 15, 16, 16, 17, 17, 18, 19, 19])); psn = R.choice([None, "00", g.digits(2)])
        cases.append(op_mk(R.choice("ab"), k, g.form(pan), g.form(psn), gen="random"))
    for _ in range(ctx.n(400, 2000)):
        m = R.randbytes(R.choice([0, 1, 9, 10, 55, 56, 63, 64, 65, R.randrange(0, 200)]))
        cases.append(op_sha1(m, gen="prelude:sha1"))
    # one digit string cut into PAN | PSN at every position, under one issuer key (a memo keyed on the concatenation)
    for _ in range(ctx.n(10, 100)):
        k = g.key(); digits = g.digits(R.choice([17, 18, 19, 20]))
        cuts = list(range(len(digits) - 4, len(digits) + 1)); R.shuffle(cuts)
        for cut in cuts + cuts[:2]:
            cases.append(op_mk("b", k, g.form(digits[:cut]), g.form(digits[cut:]), gen="PAN|PSN cut at every position"))
    # single- and triple-length issuer keys (accepted by the cipher; K3 takes part)
    for _ in range(ctx.n(300, 3000)):
        k = R.randbytes(R.choice([8, 24, 24]))
        if len(k) == 24 and R.random() < .5:
            k = g.key24()
        cases.append(op_mk(R.choice("ab"), k, g.form(g.digits(R.choice([12, 16, 17, 19]))), g.form(R.choice([None, g.digits(2)])),
                           gen="8- and 24-byte issuer keys"))
    # PAN / PSN text as it is displayed or stored: grouped, tab-separated, trailing newline
    for _ in range(ctx.n(600, 6000)):
        pan = g.formatted(g.digits(R.choice([8, 12, 14, 15, 16, 16, 17, 18, 19])))
        psn = R.choice([None, "00", g.digits(2), g.formatted(g.digits(2))])
        cases.append(op_mk(R.choice("ab"), g.key(), g.form(pan), g.form(psn), gen="formatted PAN/PSN text"))
    # malformed: non-digit characters, odd psn, non-ascii bytes (class only)
    for _ in range(ctx.n(500, 3000)):
        pan = R.choice(["12345678901234AB", "1234 5678", "", "12345678901234567", "1234567890123456789012"])
        psn = R.choice(["0", "", "001", "zz", None, "00"])
        cases.append(op_mk(R.choice("ab"), g.key(), g.form(pan), g.form(psn), gen="malformed", proj="class"))
    ctx.run_cases(cases)


def C04(ctx):
    g = G(ctx.sub("g")); R = g.R
    cases = []
    for _ in range(ctx.n(5000, 50000)):
        k = g.key(); r = R.randbytes(8)
        c = R.random()
        if c < .15:
            r = r[:2] + R.choice([b"\xf0", b"\x0f"]) + r[3:]
        cases.append(op_common_sk(k, r, ba=R.random() < .3, gen="common_sk"))
        if R.random() < .2:                              # differs only in the third byte
            r2 = r[:2] + bytes([R.randrange(256)]) + r[3:]
            cases.append(op_common_sk(k, r2, gen="common_sk third byte varied"))
    for _ in range(ctx.n(3000, 30000)):
        k = g.key()
        a = R.choice([R.randbytes(2), b"\x00\xff", b"\xff\x00", b"\x0f\xf0", b"\x00\x00", b"\xff\xff", b"\x55\xaa"])
        cases.append(op_visa_sk(k, a, gen="visa_sk"))
    # a half of the session key that is a special DES key (weak, semi-weak, all zero / ones, up to parity): the
    # diversifier is solved for by decrypting the special value
    nsolved = 0
    for _ in range(ctx.n(3, 12)):
        k = g.fresh_key()
        for third in (0xF0, 0x0F):
            for x in gens.preimages_of_special_blocks(k, lambda x, third=third: x[2] == third, limit=4):
                r = x[:2] + bytes([R.randrange(256)]) + x[3:]
                cases.append(op_common_sk(k, r, gen="session key half is a special DES key (solved)")); nsolved += 1
    ctx.extra["special_session_key_halves_solved"] = nsolved
    for _ in range(ctx.n(500, 2000)):
        cases.append(op_common_sk(R.choice([g.key(), g.badkey()]), g.sized(8, .6), gen="malformed", proj="class"))
        cases.append(op_visa_sk(R.choice([g.key(), g.badkey()]), g.sized(2, .6), gen="malformed", proj="class"))
    # one reusable buffer, rewritten in place between calls (ATC stepped in a diversifier; key refilled)
    for _ in range(ctx.n(20, 200)):
        k = g.key(); base = R.randbytes(8)
        conts = [bytes([0, i]) + base[2:] for i in range(0x1C, 0x24)] + [R.randbytes(8) for _ in range(3)]
        cases += reused_buffer_cases(conts, lambda c, k=k: f"kd.common_sk {hx(k)} {hx(c)}",
                                     lambda buf, k=k: kd.derive_common_sk(k, buf), "reused diversifier buffer")
        r = R.randbytes(8)
        cases += reused_buffer_cases([g.fresh_key() for _ in range(4)], lambda c, r=r: f"kd.common_sk {hx(c)} {hx(r)}",
                                     lambda buf, r=r: kd.derive_common_sk(buf, r), "reused key buffer")
        a = R.randbytes(2)
        cases += reused_buffer_cases([g.fresh_key() for _ in range(3)], lambda c, a=a: f"kd.visa_sk {hx(c)} {hx(a)}",
                                     lambda buf, a=a: kd.derive_visa_sm_sk(buf, a), "reused key buffer")
        cases += reused_buffer_cases([R.randbytes(2) for _ in range(4)], lambda c, k=k: f"kd.visa_sk {hx(k)} {hx(c)}",
                                     lambda buf, k=k: kd.derive_visa_sm_sk(k, buf), "reused ATC buffer")
    ctx.run_cases(cases)
    # a state-carrying TDES helper shows only after a ragged ECB call under the same key
    k = g.fresh_key()
    try:
        tools.encrypt_tdes_ecb(k, b"\x01\x02\x03")
    except Exception:  # noqa: BLE001
        pass
    ctx.run_cases([op_common_sk(k, R.randbytes(8), gen="after a ragged ECB call under the same key") for _ in range(20)])
    # complete ATC enumeration per key, by digest
    nkeys = ctx.n(2, 16)
    enum_digest(ctx, [("enum.visa_sk", (g.fresh_key(),)) for _ in range(nkeys)],
                lambda args, a: canon(lambda: kd.derive_visa_sm_sk(args[0], a.to_bytes(2, "big"))),
                lambda args, lo, hi: f"enum.visa_sk {hx(args[0])} {lo} {hi}",
                lambda args, a: op_visa_sk(args[0], a.to_bytes(2, "big"), gen="enum"), 65536, 4096)
    ctx.exhaustive_dims.append(f"all 65536 ATCs × {nkeys} keys (Visa session key)")


def enum_digest(ctx, jobs, py_line, model_line, one_case, total, chunk):
    """both sides enumerate [0,total) in chunks and compare SHA-1 digests of the answer lines; unequal
    chunks are re-run item by item"""
    import hashlib
    lines = []; keys = []
    for name, args in jobs:
        for lo in range(0, total, chunk):
            hi = min(total, lo + chunk)
            lines.append(model_line(args, lo, hi)); keys.append((args, lo, hi))
    want = run_model(lines, 16)
    import multiprocessing as mp
    global _PY_LINE
    _PY_LINE = py_line                                   # inherited by the forked workers
    with mp.get_context("fork").Pool(min(16, len(keys))) as pool:
        got = pool.starmap(_digest_chunk, [(args, lo, hi) for args, lo, hi in keys])
    for (args, lo, hi), w, gdig in zip(keys, want, got):
        ctx.evaluations += hi - lo
        ctx.dist["enumeration by digest"] += hi - lo
        if w.split()[1] != gdig:
            ctx.notes.append(f"digest differs on chunk {lo}..{hi}; re-running item by item")
            ctx.run_cases([one_case(args, a) for a in range(lo, hi)])


_PY_LINE = None


def _digest_chunk(args, lo, hi):
    import hashlib
    h = hashlib.sha1()
    for a in range(lo, hi):
        h.update(_PY_LINE(args, a).encode() + b"\n")
    return h.hexdigest()


BH_ACCEPT = [(4, 8), (2, 16), (3, 11), (7, 6), (10, 5), (41, 3), (65536, 1), (256, 2), (16, 4), (65537, 1), (1000, 2), (6, 7), (5, 7), (100000, 1), (2, 17), (3, 16)]
BH_REJECT = [(65534, 1), (65535, 1), (255, 2), (1, 1), (1, 16), (1, 20), (1, 40), (40, 3), (2, 15), (4, 7), (3, 10), (0, 3), (5, 0), (0, 0), (15, 4), (6, 6)]


def C05(ctx):
    g = G(ctx.sub("g")); R = g.R
    cases = []
    for (b, h) in BH_ACCEPT + BH_REJECT:
        for _ in range(ctx.n(12, 60)):
            k = g.key(); iv = R.choice([bytes(16), R.randbytes(16), g.structured16()])
            a = R.choice([R.randbytes(2), b"\x00\x00", b"\xff\xff", b"\x00\x01", b"\x00\xff", b"\x01\x00"])
            cases.append(op_tree_sk(k, a, h, b, iv, gen="listed (b,H) incl. the acceptance boundary"))
    # gate grid: every (b,H) with small b, H and those around b**H = 65535
    for b in list(range(0, 20)) + [255, 256, 257, 65534, 65535, 65536, 65537]:
        for h in list(range(0, 19)) + [20, 24, 32]:
            if b ** h > 10 ** 9 and h > 4 and b > 2:
                continue
            if h > 20 and b >= 2:
                continue
            cases.append(op_tree_sk(g.keys[0], b"\x12\x34", h, b, bytes(16), gen="gate grid", proj="class"))
    ctx.exhaustive_dims.append("acceptance gate on a (b,H) grid: b in 0..19 and around 2^8, 2^16; H in 0..18,20,24,32")
    # same key and IV under different tree shapes, ATCs sharing non-zero nodes (cache keyed on too little)
    for _ in range(ctx.n(300, 3000)):
        k = R.choice(g.keys[:3]); iv = bytes(16)
        b, h = R.choice([(4, 8), (2, 16), (16, 4), (3, 11), (256, 2)])
        a = R.choice([R.randbytes(2), bytes([0, R.randrange(256)]), bytes([R.randrange(256), 0])])
        cases.append(op_tree_sk(k, a, h, b, iv, gen="same key/IV across tree shapes"))
    # a key and its parity variants under one IV / tree shape (a cache keyed on a parity-normalised key)
    for _ in range(ctx.n(60, 600)):
        k = R.choice(g.keys[:5] + [bytes(16)]); iv = R.choice([bytes(16), R.randbytes(16), g.structured16()])
        b, h = R.choice([(4, 8), (16, 4), (256, 2), (2, 16), (65536, 1)])
        a = R.randbytes(2)
        for kk in (k, tools.adjust_key_parity(k), bytes(x ^ 1 for x in k), k):
            cases.append(op_tree_sk(kk, a, h, b, iv, gen="key and its parity variants"))
            cases.append(op_tree_sk(kk, bytes([a[0], a[1] ^ 1]), h, b, iv, gen="key and its parity variants"))
    for _ in range(ctx.n(10, 100)):
        k = g.key(); iv = bytes(16)
        cases += reused_buffer_cases([R.randbytes(2) for _ in range(4)], lambda c, k=k, iv=iv: f"kd.tree_sk {hx(k)} {hx(c)} 8 4 {hx(iv)}",
                                     lambda buf, k=k, iv=iv: kd.derive_emv2000_tree_sk(k, buf, 8, 4, iv), "reused ATC buffer")
        a = R.randbytes(2)
        cases += reused_buffer_cases([g.fresh_key() for _ in range(3)], lambda c, a=a, iv=iv: f"kd.tree_sk {hx(c)} {hx(a)} 8 4 {hx(iv)}",
                                     lambda buf, a=a, iv=iv: kd.derive_emv2000_tree_sk(buf, a, 8, 4, iv), "reused key buffer")
    for _ in range(ctx.n(300, 1500)):
        cases.append(op_tree_sk(R.choice([g.key(), g.badkey()]), g.sized(2, .5), 8, 4, g.sized(16, .5), gen="malformed", proj="class"))
    ctx.run_cases(cases)
    # complete ATC enumeration by digest
    shapes = [(16, 4), (3, 11)] if not ctx.thorough else [(16, 4), (3, 11), (4, 8), (2, 16), (7, 6), (10, 5), (41, 3), (65536, 1), (256, 2)]
    nkeys = ctx.n(1, 3)
    jobs = []
    for (b, h) in shapes:
        for i in range(nkeys):
            jobs.append(("enum.tree_sk", (g.fresh_key() if i else g.keys[5], h, b, R.randbytes(16) if i else bytes(16))))
    enum_digest(ctx, jobs,
                lambda args, a: canon(lambda: kd.derive_emv2000_tree_sk(args[0], a.to_bytes(2, "big"), args[1], args[2], args[3])),
                lambda args, lo, hi: f"enum.tree_sk {hx(args[0])} {args[1]} {args[2]} {hx(args[3])} {lo} {hi}",
                lambda args, a: op_tree_sk(args[0], a.to_bytes(2, "big"), args[1], args[2], args[3], gen="enum"), 65536, 2048)
    ctx.exhaustive_dims.append(f"all 65536 ATCs × shapes {shapes} × {nkeys} key/IV pair(s)")
    # uniqueness on the real code (a test, not a theorem): all 65536 keys pairwise distinct
    import multiprocessing as mp
    ushapes = [(16, 4), (65536, 1)] if not ctx.thorough else [(16, 4), (65536, 1), (4, 8), (3, 11), (256, 2)]
    with mp.get_context("fork").Pool(16) as pool:
        for (b, h) in ushapes:
            k = g.fresh_key(); iv = R.randbytes(16)
            parts = pool.starmap(_tree_chunk, [(k, h, b, iv, lo, lo + 4096) for lo in range(0, 65536, 4096)])
            allk = [x for p in parts for x in p]
            errs = [x for x in allk if isinstance(x, str)]
            ctx.check("accepted tree parameters yield a key for every ATC", not errs,
                      f"tree_sk key={hx(k)} iv={hx(iv)} b={b} H={h}: {len(errs)} ATCs raise, e.g. {errs[:1]}")
            ctx.check("65536 ATCs give pairwise distinct session keys", len(set(allk)) == 65536,
                      f"collision among session keys for key={hx(k)} iv={hx(iv)} b={b} H={h}: {65536 - len(set(allk))} duplicates")
            ctx.evaluations += 65536


def _tree_chunk(k, h, b, iv, lo, hi):
    out = []
    for a in range(lo, hi):
        try:
            out.append(kd.derive_emv2000_tree_sk(k, a.to_bytes(2, "big"), h, b, iv))
        except Exception as e:  # noqa: BLE001  (reported by the caller as a failed predicate)
            out.append(f"ATC {a:04X}: {type(e).__name__}: {e}")
    return out


def C06(ctx):
    g = G(ctx.sub("g")); R = g.R
    cases = []
    for n in range(0, 256):
        k = g.key(); c = R.randbytes(n)
        for l in (None, 4, 5, 6, 7, 8):
            cases.append(op_command_mac(k, c, l, gen="grid:command length 0..255 × outlen"))
    ctx.exhaustive_dims.append("command length 0..255 × output length {default,4..8}")
    for _ in range(ctx.n(4000, 40000)):
        k = g.key(); c = R.choice([b"\x84\x24\x00\x00\x08", b"\x04\xda\x9f\x58\x09"]) + g.msg(40) if R.random() < .5 else g.msg(300)
        cases.append(op_command_mac(k, c, R.choice([None, 4, 5, 6, 7, 8]), gen="random+reuse"))
    for _ in range(ctx.n(1500, 8000)):
        n = 8 * R.randrange(1, 8); z = R.randrange(0, 8)
        c = R.randbytes(n - z - 1) + b"\x80" + bytes(z)
        cases.append(op_command_mac(g.key(), c, None, gen="ends in 80 00* at a block edge"))
    for _ in range(ctx.n(150, 1500)):
        k = g.key()
        if len(k) != 16:
            continue
        c = gens.cbc_fixed_point_message(R, k[:8], R.randrange(2, 7), None, R.choice([bytes(8), b"\xff" * 8])) + R.randbytes(R.randrange(0, 8))
        cases.append(op_command_mac(k, c, R.choice([None, 4, 8]), gen="cipher input vanishes at a block"))
    for n in ([65536, 70001] if not ctx.thorough else [65535, 65536, 65537, 70001, 131072]):
        cases.append(op_command_mac(g.key(), R.randbytes(n), None, gen="command beyond 64 KiB"))
    # the output length as other integer objects (IntEnum member, __index__-only object)
    for l in (4, 5, 6, 7, 8):
        for lf in gens.int_forms(l)[1:]:
            for _ in range(ctx.n(6, 30)):
                k = g.key(); c = g.msg(60)
                cs = op_command_mac(k, c, l, gen="output length as a non-int integer object")
                cs.call = (lambda k=k, c=c, lf=lf: sm.generate_command_mac(k, c, lf))
                cs.outside = not isinstance(lf, int)      # an object that is no int at all may be refused
                cases.append(cs)
                cm = op_mac3(k[:8], k[8:], c, 2, l, gen="output length as a non-int integer object")
                cm.call = (lambda k=k, c=c, lf=lf: mac.mac_iso9797_3(k[:8], k[8:], c, 2, lf))
                cm.outside = not isinstance(lf, int)
                cases.append(cm)
    for _ in range(ctx.n(300, 1000)):
        cases.append(op_command_mac(g.badkey(), g.msg(), None, gen="malformed", proj="class"))
        cases.append(op_mac3(g.sized(8, .5), g.sized(8, .5), g.msg(), R.choice([1, 2]), None, gen="malformed", proj="class"))
    for n in ([1 << 20] if not ctx.thorough else [1 << 20, (1 << 20) + 3, 1 << 21]):
        d = R.randbytes(n); k = g.fresh_key()
        with ctx.guard("script MAC of a megabyte command", f"command_mac len={n}"):
            ctx.check("script MAC of a megabyte command", sm.generate_command_mac(k, d) == fast_alg3(k, d + b"\x80" + bytes(-(n + 1) % 8)),
                      f"generate_command_mac(key={hx(k)}, <{n} bytes>)")
    ctx.run_cases(cases)
    # a card recomputing the MAC accepts it (independent Algorithm 3 on cryptography's single DES)
    for _ in range(ctx.n(300, 3000)):
        k = g.key(); c = g.msg(64); l = R.choice([None, 4, 8])
        ctx.check("independent Algorithm 3 agrees", sm.generate_command_mac(k, c, l) == ref_alg3(k, c + b"\x80")[: (l or 8)],
                  f"command_mac({hx(k)},{hx(c)},{l})")


def _des(k8):
    from cryptography.hazmat.primitives.ciphers import Cipher, algorithms, modes
    return Cipher(algorithms.TripleDES(k8 * 3), modes.ECB())


def ref_alg3(k, data_with_marker):
    """independent ISO 9797-1 algorithm 3 over zero-padded data (caller appends 0x80 for method 2)"""
    d = data_with_marker + bytes(-len(data_with_marker) % 8)
    if not d:
        d = bytes(8)
    e1 = _des(k[:8]); d2 = _des(k[8:])
    h = bytes(8)
    for i in range(0, len(d), 8):
        x = bytes(a ^ b for a, b in zip(h, d[i:i + 8]))
        h = e1.encryptor().update(x)
    return e1.encryptor().update(d2.decryptor().update(h))


def tdes_dec(k, ct, mode, iv=bytes(8)):
    from cryptography.hazmat.primitives.ciphers import Cipher, algorithms, modes
    m = modes.ECB() if mode == "ecb" else modes.CBC(iv)
    return Cipher(algorithms.TripleDES(k), m).decryptor().update(ct)


def unpad2(f):
    i = len(f) - 1
    while i >= 0 and f[i] == 0:
        i -= 1
    if i < 0 or f[i] != 0x80:
        return None
    return f[:i]


def C07(ctx):
    g = G(ctx.sub("g")); R = g.R
    cases = []
    # the command data as any buffer / sequence object: the same cryptogram as for its bytes, or a refusal
    for _ in range(ctx.n(40, 400)):
        k = g.key(); d = R.randbytes(R.choice([8, 16, 24, 4, 12, 20, 6, 2]))
        for t in (sm.EncryptionType.VISA, sm.EncryptionType.MASTERCARD, sm.EncryptionType.EMV):
            want = canon(lambda: sm.encrypt_command_data(k, d, t))
            for name, mk in gens.byteslike_forms(d):
                got = canon(lambda: sm.encrypt_command_data(k, mk(), t))
                ok = got == want or got.startswith("err ") or got.startswith("uncaught ")
                if ("cast" in name or "array('I')" in name) and t is sm.EncryptionType.VISA:
                    continue                             # len() of such a buffer counts items: the Visa length prefix has no agreed reading
                ctx.check("encipherment depends on the data's bytes only (or is refused)", ok,
                          f"encrypt_command_data({hx(k)}, <{name}> of {hx(d)}, {t.name}) -> {got[:80]}; bytes form -> {want[:80]}")
    for n in range(0, 256):
        k = g.key()
        tails = [R.randbytes(n)]
        if n:
            tails.append(R.randbytes(n - 1) + b"\x80")
        if n > 2:
            z = R.randrange(1, min(n, 8)); tails.append(R.randbytes(n - z - 1) + b"\x80" + bytes(z))
        for d in tails:
            for t in ("VISA", "MASTERCARD", "EMV"):
                cases.append(op_encrypt(k, d, t, gen="grid:data length 0..255 × scheme"))
    ctx.exhaustive_dims.append("data length 0..255 × {VISA, MASTERCARD, EMV}")
    for _ in range(ctx.n(3000, 30000)):
        cases.append(op_encrypt(g.key(), g.msg(200), R.choice(["VISA", "MASTERCARD", "EMV"]), gen="random+reuse"))
    # beyond 64 KiB for the CBC schemes (no one-byte length prefix to stop them)
    for n in ([65535, 65536, 65537, 70001] if not ctx.thorough else [65535, 65536, 65537, 65544, 70001, 131072, 200001]):
        for t in ("MASTERCARD", "EMV"):
            cases.append(op_encrypt(g.key(), R.randbytes(n), t, gen="data beyond 64 KiB"))
    for _ in range(ctx.n(400, 2000)):
        c = R.random()
        if c < .4:
            cases.append(op_encrypt(g.badkey(), g.msg(), R.choice(["VISA", "MASTERCARD", "EMV"]), gen="malformed:key", proj="class"))
        elif c < .8:
            cases.append(op_encrypt(g.key(), g.msg(), "X", obj=R.choice(NON_MEMBERS[:6] + [ac.PaddingType.EMV]), gen="malformed:scheme", proj="class"))
        else:
            cases.append(op_encrypt(g.key(), R.randbytes(R.randrange(256, 300)), "VISA", gen="out of domain: >255 bytes Visa", proj="class"))
    ctx.run_cases(cases)
    # relational: an independent TDES decrypts to the documented frame, data recovered, minimal length
    for n in list(range(0, 256)) + [R.randrange(0, 256) for _ in range(ctx.n(300, 3000))]:
        k = g.key(); d = g.fresh_msg(8)[:0] + R.randbytes(n)
        if R.random() < .3 and n:
            d = d[:-1] + b"\x80"
        ct = sm.encrypt_command_data(k, d, sm.EncryptionType.VISA)
        f = tdes_dec(k, ct, "ecb")
        u = unpad2(f)
        ctx.check("visa frame recovers the data", len(ct) == 8 * ((n + 2 + 7) // 8) and u is not None and u[:1] == bytes([n]) and u[1:] == d,
                  f"VISA key={hx(k)} data={hx(d)} ct={hx(ct)}")
        ct = sm.encrypt_command_data(k, d, sm.EncryptionType.EMV)
        u = unpad2(tdes_dec(k, ct, "cbc"))
        ctx.check("emv frame recovers the data", len(ct) == 8 * ((n + 1 + 7) // 8) and u == d, f"EMV key={hx(k)} data={hx(d)} ct={hx(ct)}")
        ct = sm.encrypt_command_data(k, d, sm.EncryptionType.MASTERCARD)
        f = tdes_dec(k, ct, "cbc")
        u = f if n % 8 == 0 else unpad2(f)
        ctx.check("mastercard frame recovers the data given the alignment", len(ct) == 8 * ((n + 7) // 8) and u == d,
                  f"MASTERCARD key={hx(k)} data={hx(d)} ct={hx(ct)}")
