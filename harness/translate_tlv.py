#!/usr/bin/env python3
"""translate_tlv.py <repo> <out.lean>: regenerate Lean definitions of pyemv/tlv.py from its current source.

A small compiler for the imperative subset tlv.py is written in.  Conventions (DESIGN.md §2.6):

* Statements are compiled in continuation-passing style into one pure Lean expression.  An `if` from which both
  branches fall through gets a *join point* — a local function of the variables assigned in the branches —
  defined (textually) before the `if` and called at the end of each branch.
* Local variables are re-bound by shadowing `let`s (Python assignment), integers that are offsets/lengths are `Nat`
  (they are sums of lengths and byte values; subtraction occurs only as `2 ** e - 1`), `bytes`/`bytearray` are
  `List UInt8`, the tag name `data[a:b].hex().upper()` is kept as the tag *bytes* (its rendering is injective).
* `x[i]` is a partial operation: inside a `try … except IndexError` the handler is inlined at the failing access
  with the variable values of that moment; anywhere else it is the outcome `crash` (an exception other than the
  module's own would escape).  `bytes.fromhex` is treated likewise with `ValueError`; `isinstance` narrowing of
  the dynamically typed `value` uses checked projections whose failure is `crash`.
* `while` loops become fuel-recursive definitions (fuel exhaustion is the distinct outcome `fuel`); the `while`
  at the top of `_decode` and the recursive call `_decode(…)` are calls of the same definition.  The fuel each
  loop is started with is an annotation of this translator (FUEL); a wrong annotation makes the refinement proof
  fail, it cannot make it succeed.
* `dec` is a mutable dict shared by aliasing: `dec[tag] = {}` followed by `_decode(…, dec[tag], …)` passes the
  child dict and re-binds `dec[tag]` to what the callee left in it, on normal return *and* on a raise (that is
  what the caller observes through the alias; `decode` replaces the error's dict by the top-level one, which the
  translator requires to be there).  `convert(tag, v)` is an uninterpreted pure parameter; every call is appended
  to a log.
Anything outside this subset stops the translation with exit status 3 and names the construct.
"""
import ast
import os
import sys


class Unsupported(Exception):
    pass


LEAN_TY = {"N": "Nat", "Bool": "Bool", "B": "Bytes", "D": "DictC α", "L": "Log", "PV": "PyVal", "S": "PyStr", "U8": "UInt8"}
FUEL = {("_decode", 1): "data.length + 1", ("_encode", 1): "tag.length + 1", ("_encode", 2): "value.length"}
DEC_MSG = {"Tag malformed, expecting more data": ".tag"}
DEC_FMSG = {("Tag length malformed, expecting ", " byte(s)"): ".len", ("Tag value malformed, expecting ", " byte(s)"): ".val"}


def u(e):
    return ast.unparse(e)


def const_int(e):
    return e.value if isinstance(e, ast.Constant) and isinstance(e.value, int) and not isinstance(e.value, bool) else None


class Ctx:
    def __init__(self, fn, res, on_index=None, on_value=None):
        self.fn, self.res, self.on_index, self.on_value = fn, res, on_index, on_value
        self.nix = [0]; self.nk = [0]; self.nloop = [0]; self.loops = []
        self.ret = None; self.fuelvar = None; self.loop_index = {}
        self.site_kind = {}                      # DecodeError raise statements in source order -> fault kind (fall-back)

    def number_loops(self, fn, skip=()):
        ws = sorted((n for n in ast.walk(fn) if isinstance(n, ast.While) and n not in skip), key=lambda n: (n.lineno, n.col_offset))
        self.loop_index = {id(n): i + 1 for i, n in enumerate(ws)}

    def sub(self, **kw):
        c = Ctx(self.fn, self.res, self.on_index, self.on_value)
        c.nix, c.nk, c.nloop, c.loops, c.ret, c.fuelvar = self.nix, self.nk, self.nloop, self.loops, self.ret, self.fuelvar
        c.loop_index = self.loop_index
        c.site_kind = self.site_kind
        for k, v in kw.items():
            setattr(c, k, v)
        return c

    def fresh(self, kind):
        cnt = {"ix": self.nix, "k": self.nk}[kind]
        cnt[0] += 1
        return f"{kind}{cnt[0]}"


# ------------------------------------------------------------------------------------------------------------
# expressions

def expr(e, env):
    """(lean code, type) of a pure expression; partial operations must have been hoisted before"""
    if isinstance(e, ast.Name):
        if e.id not in env:
            raise Unsupported(f"name {e.id}")
        return e.id, env[e.id]
    ci = const_int(e)
    if ci is not None:
        return str(ci), "lit"
    if isinstance(e, ast.BinOp):
        a, ta = expr(e.left, env); b, tb = expr(e.right, env)
        if isinstance(e.op, ast.BitAnd) and "U8" in (ta, tb) and {ta, tb} <= {"U8", "lit"}:
            return f"({a} &&& {b})", "U8"
        if isinstance(e.op, ast.BitOr) and {ta, tb} <= {"N", "lit"}:
            return f"({a} ||| {b})", "N"
        if isinstance(e.op, ast.Add) and {ta, tb} <= {"N", "lit"}:
            return f"({a} + {b})", "N"
        if isinstance(e.op, ast.Add) and ta == "B" and tb == "B":
            return f"({a} ++ {b})", "B"
        if isinstance(e.op, ast.Mult) and {ta, tb} <= {"N", "lit"}:
            return f"({a} * {b})", "N"
        if isinstance(e.op, ast.Pow) and ta == "lit" and tb in ("N", "lit"):
            return f"({a} ^ {b})", "N"
        if isinstance(e.op, ast.Sub) and isinstance(e.left, ast.BinOp) and isinstance(e.left.op, ast.Pow) and const_int(e.right) == 1 \
                and const_int(e.left.left) is not None and const_int(e.left.left) >= 1:
            return f"({a} - 1)", "N"                     # c ** e - 1 with c ≥ 1 never goes below zero
        raise Unsupported(f"operator in `{u(e)}` ({ta}, {tb})")
    if isinstance(e, ast.Compare) and len(e.ops) == 1:
        a, ta = expr(e.left, env); b, tb = expr(e.comparators[0], env)
        op = e.ops[0]
        if {ta, tb} <= {"N", "lit"} and not (ta == tb == "lit"):
            sym = {ast.Gt: ">", ast.Lt: "<", ast.GtE: "≥", ast.LtE: "≤", ast.NotEq: "!=", ast.Eq: "=="}.get(type(op))
            if sym is None:
                raise Unsupported(f"comparison `{u(e)}`")
            return (f"({a} {sym} {b})" if sym in ("!=", "==") else f"decide ({a} {sym} {b})"), "Bool"
        if {ta, tb} <= {"U8", "lit"} and isinstance(op, (ast.Eq, ast.NotEq)):
            return f"({a} {'==' if isinstance(op, ast.Eq) else '!='} {b})", "Bool"
        raise Unsupported(f"comparison `{u(e)}` ({ta}, {tb})")
    if isinstance(e, ast.BoolOp):
        parts = [truth(v, env) for v in e.values]
        return "(" + (" && " if isinstance(e.op, ast.And) else " || ").join(parts) + ")", "Bool"
    if isinstance(e, ast.UnaryOp) and isinstance(e.op, ast.Not):
        return f"(!{truth(e.operand, env)})", "Bool"
    if isinstance(e, ast.Subscript) and isinstance(e.slice, ast.Slice):
        b, tb = expr(e.value, env)
        s = e.slice
        if tb != "B" or s.lower is None or s.upper is None or s.step is not None:
            raise Unsupported(f"slice `{u(e)}`")
        lo, tl = expr(s.lower, env); hi, th = expr(s.upper, env)
        if not {tl, th} <= {"N", "lit"}:
            raise Unsupported(f"slice bounds `{u(e)}`")
        return f"(slice {b} {lo} {hi})", "B"
    if isinstance(e, ast.Call):
        f = u(e.func)
        if f == "bool" and len(e.args) == 1:
            return truth(e.args[0], env), "Bool"
        if f == "len" and len(e.args) == 1:
            a, ta = expr(e.args[0], env)
            if ta != "B":
                raise Unsupported(f"len of {ta} in `{u(e)}`")
            return f"{a}.length", "N"
        if f == "min" and len(e.args) == 2:
            a, ta = expr(e.args[0], env); b, tb = expr(e.args[1], env)
            if not {ta, tb} <= {"N", "lit"}:
                raise Unsupported(f"min `{u(e)}`")
            return f"(min {a} {b})", "N"
        if f == "str" and len(e.args) == 1:              # only inside messages: the number itself is kept
            return expr(e.args[0], env)
        if f == "int.from_bytes" and len(e.args) == 2 and isinstance(e.args[1], ast.Constant) and e.args[1].value == "big":
            a, ta = expr(e.args[0], env)
            if ta != "B":
                raise Unsupported(f"`{u(e)}`")
            return f"(fromBE {a})", "N"
        if f == "int.to_bytes" and len(e.args) == 3 and isinstance(e.args[2], ast.Constant) and e.args[2].value == "big":
            a, ta = expr(e.args[0], env); k, tk = expr(e.args[1], env)
            if not {ta, tk} <= {"N", "lit"}:
                raise Unsupported(f"`{u(e)}`")
            return f"(toBE {k} {a})", "B"
        if isinstance(e.func, ast.Attribute) and e.func.attr == "upper" and not e.args and isinstance(e.func.value, ast.Call) \
                and isinstance(e.func.value.func, ast.Attribute) and e.func.value.func.attr == "hex" and not e.func.value.args:
            a, ta = expr(e.func.value.func.value, env)   # X.hex().upper(): the tag name, kept as its bytes
            if ta != "B":
                raise Unsupported(f"`{u(e)}`")
            return a, "B"
        if f == "isinstance" and len(e.args) == 2:
            a, ta = expr(e.args[0], env)
            cls = u(e.args[1])
            m = {"_t.Mapping": "isMapping", "str": "isStr", "(bytes, bytearray)": "isBytes"}.get(cls)
            if ta != "PV" or m is None:
                raise Unsupported(f"`{u(e)}`")
            return f"(PyVal.{m} {a})", "Bool"
        raise Unsupported(f"call `{u(e)}`")
    raise Unsupported(f"expression `{u(e)}`")


def truth(e, env):
    c, t = expr(e, env)
    if t == "Bool":
        return c
    if t == "U8" or t == "N":
        return f"({c} != 0)"
    raise Unsupported(f"truth value of {t} in `{u(e)}`")


def as_type(code, t, want, what):
    if t == want or (t == "lit" and want in ("N", "U8")):
        return code
    if t == "U8" and want == "N":
        return f"{code}.toNat"
    raise Unsupported(f"{what}: {t} where {want} is expected")


class Hoist(ast.NodeTransformer):
    """replace partial operations (x[i], bytes.fromhex(x)) by fresh names, in evaluation order"""

    def __init__(self, ctx):
        self.ctx, self.binds = ctx, []

    def visit_Subscript(self, n):
        self.generic_visit(n)
        if isinstance(n.slice, ast.Slice):
            return n
        name = self.ctx.fresh("ix")
        self.binds.append(("index", name, n.value, n.slice))
        return ast.copy_location(ast.Name(id=name, ctx=ast.Load()), n)

    def visit_Call(self, n):
        self.generic_visit(n)
        if u(n.func) == "bytes.fromhex" and len(n.args) == 1:
            name = self.ctx.fresh("ix")
            self.binds.append(("fromhex", name, n.args[0], None))
            return ast.copy_location(ast.Name(id=name, ctx=ast.Load()), n)
        return n


def with_partials(nodes, env, ctx, ind, body):
    """emit the matches for the partial operations in `nodes`, then body(nodes', env', ind')"""
    h = Hoist(ctx)
    new = [h.visit(ast.fix_missing_locations(ast.parse(u(n), mode="eval").body)) for n in nodes]
    env = dict(env)
    lines = []
    for kind, name, a, b in h.binds:
        if kind == "index":
            base, tb = expr(a, env); idx, ti = expr(b, env)
            if tb != "B" or ti not in ("N", "lit"):
                raise Unsupported(f"index `{u(a)}[{u(b)}]`")
            lines.append(f"{ind}match {base}[{idx}]? with")
            fail = ctx.on_index(env, ind + "  ") if ctx.on_index else [f"{ind}  .crash"]
            lines.append(f"{ind}| none =>"); lines += fail
            lines.append(f"{ind}| some {name} =>")
            env[name] = "U8"; ind += "  "
        else:
            arg, ta = expr(a, env)
            if ta == "PV":
                lines.append(f"{ind}match PyVal.asStr? {arg} with")
                lines.append(f"{ind}| none =>"); lines.append(f"{ind}  .crash")
                lines.append(f"{ind}| some {name}s =>")
                arg = name + "s"; ind += "  "
            elif ta != "S":
                raise Unsupported(f"bytes.fromhex of {ta}")
            lines.append(f"{ind}match bytesFromHex {arg} with")
            fail = ctx.on_value(env, ind + "  ") if ctx.on_value else [f"{ind}  .crash"]
            lines.append(f"{ind}| .error _ =>"); lines += fail
            lines.append(f"{ind}| .ok {name} =>")
            env[name] = "B"; ind += "  "
    return lines + body(new, env, ind)


# ------------------------------------------------------------------------------------------------------------
# statements

def falls_through(stmts):
    if not stmts:
        return True
    s = stmts[-1]
    if isinstance(s, (ast.Raise, ast.Return)):
        return False
    if isinstance(s, ast.If):
        return falls_through(s.body) or falls_through(s.orelse)
    if isinstance(s, ast.Try):
        return falls_through(s.body) or any(falls_through(h.body) for h in s.handlers)
    return True


def assigned(stmts, acc=None):
    acc = [] if acc is None else acc
    for s in stmts:
        if isinstance(s, ast.Assign):
            for t in s.targets:
                n = t.id if isinstance(t, ast.Name) else (t.value.id if isinstance(t, ast.Subscript) and isinstance(t.value, ast.Name) else None)
                if n and n not in acc:
                    acc.append(n)
            if isinstance(s.value, ast.Call) and u(s.value.func) in ("convert", "_decode") and "log" not in acc:
                acc.append("log")
            if isinstance(s.value, ast.Call) and u(s.value.func) == "_decode":
                d = s.value.args[3]
                n = d.id if isinstance(d, ast.Name) else d.value.id
                if n not in acc:
                    acc.append(n)
        elif isinstance(s, ast.AugAssign) and isinstance(s.target, ast.Name):
            if s.target.id not in acc:
                acc.append(s.target.id)
        elif isinstance(s, ast.If):
            assigned(s.body, acc); assigned(s.orelse, acc)
        elif isinstance(s, ast.Try):
            assigned(s.body, acc)
            for h in s.handlers:
                assigned(h.body, acc)
        elif isinstance(s, ast.While):
            assigned(s.body, acc)
    return acc


def block(stmts, env, k, ctx, ind):
    if not stmts:
        return k(env, ind)
    s, rest = stmts[0], stmts[1:]
    return stmt(s, env, lambda e2, i2: block(rest, e2, k, ctx, i2), ctx, ind)


def stmt(s, env, k, ctx, ind):
    if isinstance(s, ast.Expr) and isinstance(s.value, ast.Constant):
        return k(env, ind)
    if isinstance(s, ast.Assign) and len(s.targets) == 1:
        return assign(s.targets[0], s.value, env, k, ctx, ind)
    if isinstance(s, ast.AugAssign) and isinstance(s.op, ast.Add) and isinstance(s.target, ast.Name):
        return assign(s.target, ast.BinOp(left=ast.Name(id=s.target.id, ctx=ast.Load()), op=ast.Add(), right=s.value), env, k, ctx, ind)
    if isinstance(s, ast.If):
        return if_stmt(s, env, k, ctx, ind)
    if isinstance(s, ast.Try):
        return try_stmt(s, env, k, ctx, ind)
    if isinstance(s, ast.While):
        return while_stmt(s, env, k, ctx, ind)
    if isinstance(s, ast.Raise):
        return raise_stmt(s, env, ctx, ind)
    if isinstance(s, ast.Return):
        return ctx.ret(s, env, ind)
    raise Unsupported(f"{ctx.fn}: statement `{u(s)[:60]}`")


def assign(target, value, env, k, ctx, ind):
    # dec[tag] = {}  /  dec[tag] = convert(tag, v)
    if isinstance(target, ast.Subscript):
        d, td = expr(target.value, env); key, tk = expr(target.slice, env)
        if td != "D" or tk != "B":
            raise Unsupported(f"{ctx.fn}: store `{u(target)}`")
        if isinstance(value, ast.Dict) and not value.keys:
            env = dict(env)
            return [f"{ind}let {d} := DictC.set {d} {key} (.cons [])"] + k(env, ind)
        if isinstance(value, ast.Call) and u(value.func) == "convert" and len(value.args) == 2 and not value.keywords:
            def body(new, env2, ind2):
                a, ta = expr(new[0], env2); b, tb = expr(new[1], env2)
                if ta != "B" or tb != "B":
                    raise Unsupported(f"{ctx.fn}: convert arguments `{u(value)}`")
                return [f"{ind2}let cv := {b}",
                        f"{ind2}let {d} := DictC.set {d} {key} (.prim (convert {a} cv))",
                        f"{ind2}let log := log ++ [({a}, cv)]"] + k(env2, ind2)
            return with_partials(value.args, env, ctx, ind, body)
        raise Unsupported(f"{ctx.fn}: store `{u(target)} = {u(value)[:40]}`")
    if not isinstance(target, ast.Name):
        raise Unsupported(f"{ctx.fn}: target `{u(target)}`")
    name = target.id
    # x = _decode(data, ofst', limit', dec | dec[tag], flatten, simple, convert)
    if isinstance(value, ast.Call) and u(value.func) == "_decode" and ctx.fn == "_decode":
        a = value.args
        if value.keywords or len(a) != 7 or [u(x) for x in (a[0], a[4], a[5], a[6])] != ["data", "flatten", "simple", "convert"] or name != "ofst":
            raise Unsupported(f"{ctx.fn}: recursive call `{u(value)}`")
        o, to = expr(a[1], env); lim, tl = expr(a[2], env)
        call = f"_decode convert flatten simple data {ctx.fuelvar} {o} {lim}"
        tail = [f"{ind}| .crash => .crash", f"{ind}| .fuel => .fuel"]
        if isinstance(a[3], ast.Name) and env.get(a[3].id) == "D":
            d = a[3].id
            return ([f"{ind}match {call} {d} log with", f"{ind}| .err e {d} log => .err e {d} log"] + tail
                    + [f"{ind}| .ok ofst {d} log =>"] + k(dict(env), ind + "  "))
        if isinstance(a[3], ast.Subscript) and isinstance(a[3].value, ast.Name) and env.get(a[3].value.id) == "D":
            d = a[3].value.id; key, tk = expr(a[3].slice, env)
            return ([f"{ind}match {call} (DictC.getCons {d} {key}) log with",
                     f"{ind}| .err e child log => .err e (DictC.set {d} {key} (.cons child)) log"] + tail
                    + [f"{ind}| .ok ofst child log =>", f"{ind}  let {d} := DictC.set {d} {key} (.cons child)"] + k(dict(env), ind + "  "))
        raise Unsupported(f"{ctx.fn}: dict argument `{u(a[3])}`")
    # value = _encode(value, simple)
    if isinstance(value, ast.Call) and u(value.func) == "_encode" and ctx.fn == "_encode":
        a = value.args
        if value.keywords or len(a) != 2 or u(a[1]) != "simple" or not isinstance(a[0], ast.Name) or env.get(a[0].id) != "PV":
            raise Unsupported(f"{ctx.fn}: recursive call `{u(value)}`")
        env2 = dict(env); env2[name] = "B"
        return ([f"{ind}match _encode_call simple {a[0].id} with", f"{ind}| .err e => .err e", f"{ind}| .crash => .crash", f"{ind}| .fuel => .fuel",
                 f"{ind}| .ok {name} =>"] + k(env2, ind + "  "))
    if isinstance(value, ast.Call) and u(value.func) == "bytearray" and not value.args:
        env2 = dict(env); env2[name] = "B"
        return [f"{ind}let {name} : Bytes := []"] + k(env2, ind)

    def body(new, env2, ind2):
        c, t = expr(new[0], env2)
        env3 = dict(env2)
        old = env.get(name)
        if t == "lit":
            t = old if old in ("N", "U8") else "N"
        if t == "U8":                                    # a byte stored in an integer variable
            c, t = f"{c}.toNat", "N"
        if old is not None and old != t and not (old == "PV" and t == "B"):
            raise Unsupported(f"{ctx.fn}: `{name}` changes type {old} → {t}")
        env3[name] = t
        return [f"{ind2}let {name} := {c}"] + k(env3, ind2)
    return with_partials([value], env, ctx, ind, body)


def join_call(kname, params, jtypes, env, ind):
    """call the join point; a dynamically typed variable known to hold bytes is projected (failure = crash)"""
    pre = []; args = []
    for p in params:
        if env[p] == "PV" and jtypes[p] == "B":
            pre += [f"{ind}match PyVal.asBytes? {p} with", f"{ind}| none =>", f"{ind}  .crash", f"{ind}| some {p} =>"]
            ind += "  "
        elif env[p] != jtypes[p]:
            raise Unsupported(f"join of `{p}`: {env[p]} vs {jtypes[p]}")
        args.append(p)
    return pre + [f"{ind}{kname} {' '.join(args)}".rstrip()]


def branch_types(stmts, env, name):
    """type `name` has at the end of a branch (only the narrowing PV → B matters)"""
    t = env.get(name)
    for s in stmts:
        if isinstance(s, ast.Assign) and isinstance(s.targets[0], ast.Name) and s.targets[0].id == name:
            v = s.value
            if isinstance(v, ast.Call) and u(v.func) in ("_encode", "bytes.fromhex"):
                t = "B"
        elif isinstance(s, ast.Try):
            t = branch_types(s.body, {**env, name: t}, name)
        elif isinstance(s, ast.If):
            a = branch_types(s.body, {**env, name: t}, name) if falls_through(s.body) else None
            b = branch_types(s.orelse, {**env, name: t}, name) if falls_through(s.orelse) else None
            ts = {x for x in (a, b) if x}
            t = "B" if "B" in ts else (ts.pop() if ts else t)
    return t


def if_stmt(s, env, k, ctx, ind):
    fa, fb = falls_through(s.body), falls_through(s.orelse)

    def emit(k1, ind0, pre):
        def body(new, env2, ind2):
            c = truth(new[0], env2)
            out = [f"{ind2}if {c} then"] + block(s.body, env2, k1, ctx, ind2 + "  ")
            out += [f"{ind2}else"] + block(s.orelse, env2, k1, ctx, ind2 + "  ")
            return out
        return pre + with_partials([s.test], env, ctx, ind0, body)

    if not (fa and fb):
        return emit(k, ind, [])
    # join point over the variables assigned in the branches (and defined on every path)
    names = [n for n in assigned(s.body + s.orelse) if (n in env) or (n in assigned(s.body) and n in assigned(s.orelse))]
    jt = {}
    for n in names:
        ts = {branch_types(b, env, n) for b in (s.body, s.orelse)} - {None}
        if n not in env:
            ts = {"N"}                                   # integers are the only variables first bound inside a branch
        jt[n] = "B" if ts == {"PV", "B"} or ts == {"B"} else (ts.pop() if len(ts) == 1 else None)
        if jt[n] is None:
            raise Unsupported(f"{ctx.fn}: join of `{n}`")
    kname = ctx.fresh("k")
    envk = dict(env); envk.update(jt)
    binder = " ".join(f"({n} : {LEAN_TY[jt[n]]})" for n in names)
    pre = [f"{ind}let {kname} : {' → '.join([LEAN_TY[jt[n]] for n in names] + [ctx.res])} := fun {binder} =>"] if names else \
          [f"{ind}let {kname} : Unit → {ctx.res} := fun _ =>"]
    pre += k(envk, ind + "  ")

    def k1(env2, ind2):
        e3 = dict(env2)
        for n in names:
            e3.setdefault(n, jt[n])
        if not names:
            return [f"{ind2}{kname} ()"]
        return join_call(kname, names, jt, e3, ind2)
    return emit(k1, ind, pre)


def try_stmt(s, env, k, ctx, ind):
    if len(s.handlers) != 1 or s.orelse or s.finalbody or s.handlers[0].name is not None:
        raise Unsupported(f"{ctx.fn}: try shape")
    h = s.handlers[0]
    exc = u(h.type)
    if not (len(h.body) == 1 and isinstance(h.body[0], ast.Raise)):
        raise Unsupported(f"{ctx.fn}: handler body")

    def handler(env2, ind2):
        return raise_stmt(h.body[0], env2, ctx, ind2)
    if exc == "IndexError":
        sub = ctx.sub(on_index=handler)
    elif exc == "ValueError":
        sub = ctx.sub(on_value=handler)
    else:
        raise Unsupported(f"{ctx.fn}: except {exc}")
    # the rest of the function runs outside the try: restore the outer handlers in the continuation
    if falls_through(s.body):
        kname = ctx.fresh("k")
        names = [n for n in assigned(s.body)]
        types = {}
        probe = dict(env)
        for n in names:
            types[n] = (branch_types(s.body, probe, n) if n in probe else None) or ("Bool" if n == "constructed" else "B" if n == "tag" else "N")
        envk = dict(env); envk.update(types)
        binder = " ".join(f"({n} : {LEAN_TY[types[n]]})" for n in names)
        pre = [f"{ind}let {kname} : {' → '.join([LEAN_TY[types[n]] for n in names] + [ctx.res])} := fun {binder} =>"] + k(envk, ind + "  ")

        def k1(env2, ind2):
            for n in names:
                if env2.get(n) != types[n]:
                    raise Unsupported(f"{ctx.fn}: `{n}` has type {env2.get(n)} at the end of the try, {types[n]} assumed")
            return [f"{ind2}{kname} {' '.join(names)}"]
        return pre + block(s.body, env, k1, sub, ind)
    return block(s.body, env, k, sub, ind)


def free_names(nodes):
    out = []
    for n in nodes:
        for x in ast.walk(n):
            if isinstance(x, ast.Name) and x.id not in out:
                out.append(x.id)
    return out


def while_stmt(s, env, k, ctx, ind):
    if s.orelse or not all(isinstance(b, ast.AugAssign) and isinstance(b.target, ast.Name) and env.get(b.target.id) == "N" for b in s.body):
        raise Unsupported(f"{ctx.fn}: while body `{u(s)[:60]}`")
    idx = ctx.loop_index[id(s)]                          # numbered in source order
    lname = f"{ctx.fn}_while{idx}"
    fuel = FUEL.get((ctx.fn, idx))
    if fuel is None:
        raise Unsupported(f"{ctx.fn}: no fuel annotation for while loop {idx}")
    state = []
    for b in s.body:
        if b.target.id not in state:
            state.append(b.target.id)
    if len(state) != 1:
        raise Unsupported(f"{ctx.fn}: while loop state {state}")
    st = state[0]
    frees = [n for n in free_names([s.test] + [b.value for b in s.body]) if n in env and n not in state]
    lctx = ctx.sub(on_index=(lambda e2, i2: [f"{i2}.indexErr {st}"]) if ctx.on_index else None, on_value=None)
    lctx.fn = ctx.fn

    def body(new, env2, ind2):
        c = truth(new[0], env2)
        out = [f"{ind2}if {c} then"]
        cur = dict(env2)
        for b in s.body:
            v, tv = expr(b.value, cur)
            out.append(f"{ind2}  let {b.target.id} := {b.target.id} + {v}")
        out.append(f"{ind2}  {lname} {' '.join(frees)} fuel {st}")
        out += [f"{ind2}else", f"{ind2}  .done {st}"]
        return out
    params = " ".join(f"({n} : {LEAN_TY[env[n]]})" for n in frees)
    d = [f"def {lname} {params} : Nat → Nat → LoopRes", "  | 0, _ => .fuel", f"  | fuel+1, {st} =>"]
    d += with_partials([s.test], env, lctx, "    ", body)
    ctx.loops.append("\n".join(d))
    out = [f"{ind}match {lname} {' '.join(frees)} ({fuel}) {st} with", f"{ind}| .fuel => .fuel"]
    out += [f"{ind}| .indexErr {st} =>"] + (ctx.on_index(env, ind + "  ") if ctx.on_index else [f"{ind}  .crash"])
    out += [f"{ind}| .done {st} =>"] + k(dict(env), ind + "  ")
    return out


def message_ok(m):
    if isinstance(m, ast.Constant) and isinstance(m.value, str):
        return True
    if isinstance(m, ast.JoinedStr):
        for part in m.values:
            if isinstance(part, ast.Constant):
                continue
            if not (isinstance(part, ast.FormattedValue) and part.conversion == -1 and part.format_spec is None):
                return False
            src = u(part.value)
            if not (src.endswith(".__class__.__name__") and src.count(".") == 2) and \
                    not (src.startswith("str(len(") and src.endswith("))") and src[8:-2].isidentifier()) and \
                    not (src.startswith("len(") and src.endswith(")") and src[4:-1].isidentifier()):
                return False
        return True
    return False


def message_ok_decode(m):
    """a re-worded DecodeError message: a constant, or an f-string of constants and plain `{name}` / `{str(name)}` parts
    (evaluating it cannot raise)"""
    if isinstance(m, ast.Constant) and isinstance(m.value, str):
        return True
    if isinstance(m, ast.JoinedStr):
        for part in m.values:
            if isinstance(part, ast.Constant):
                continue
            if not (isinstance(part, ast.FormattedValue) and part.conversion == -1 and part.format_spec is None):
                return False
            src = u(part.value)
            if not (src.isidentifier() or (src.startswith("str(") and src.endswith(")") and src[4:-1].isidentifier())):
                return False
        return True
    return False


def raise_stmt(s, env, ctx, ind):
    e = s.exc
    if not isinstance(e, ast.Call) or e.keywords:
        raise Unsupported(f"{ctx.fn}: `{u(s)[:50]}`")
    if s.cause is not None and not (isinstance(s.cause, ast.Constant) and s.cause.value is None):
        raise Unsupported(f"{ctx.fn}: raise … from {u(s.cause)}")
    cls = u(e.func)
    if cls == "DecodeError" and ctx.fn == "_decode" and len(e.args) == 4:
        m = e.args[0]
        folded = None
        if isinstance(m, ast.Constant) and isinstance(m.value, str) and m.value not in DEC_MSG:
            for (pre, suf), k in DEC_FMSG.items():            # the formatted message with its number written out
                mid = m.value[len(pre):len(m.value) - len(suf)] if suf else m.value[len(pre):]
                if m.value.startswith(pre) and m.value.endswith(suf) and mid.isdigit() and len(mid) < 6:
                    folded = f"({k} ({int(mid)} : Nat))"
        if isinstance(m, ast.Constant) and m.value in DEC_MSG:
            kind = DEC_MSG[m.value]
        elif folded is not None:
            kind = folded
        elif isinstance(m, ast.JoinedStr) and len(m.values) == 3 and isinstance(m.values[0], ast.Constant) and isinstance(m.values[2], ast.Constant) \
                and (m.values[0].value, m.values[2].value) in DEC_FMSG and isinstance(m.values[1], ast.FormattedValue) \
                and m.values[1].conversion == -1 and m.values[1].format_spec is None:
            c, t = expr(m.values[1].value, env)
            kind = f"({DEC_FMSG[(m.values[0].value, m.values[2].value)]} {as_type(c, t, 'N', 'message number')})"
        elif id(s) in ctx.site_kind and message_ok_decode(m):
            k = ctx.site_kind[id(s)]
            if k == ".tag":
                kind = k
            else:
                nums = [p for p in (m.values if isinstance(m, ast.JoinedStr) else []) if isinstance(p, ast.FormattedValue)]
                if len(nums) != 1:
                    raise Unsupported(f"{ctx.fn}: message `{u(m)[:60]}` does not carry the expected count")
                c, t = expr(nums[0].value, env)
                kind = f"({k} {as_type(c, t, 'N', 'message number')})"
        else:
            raise Unsupported(f"{ctx.fn}: message `{u(m)[:60]}`")
        tag, tt = expr(e.args[1], env); ofs, to = expr(e.args[2], env); d, td = expr(e.args[3], env)
        if tt != "B" or to != "N" or td != "D":
            raise Unsupported(f"{ctx.fn}: DecodeError arguments `{u(e)[:80]}`")
        return [f"{ind}.err ⟨{kind}, {tag}, {ofs}⟩ {d} log"]
    if cls == "EncodeError" and ctx.fn == "_encode" and len(e.args) == 2:
        m = e.args[0]
        if not message_ok(m):
            raise Unsupported(f"{ctx.fn}: message `{u(m)[:60]}` is not built from constants, class names and lengths "
                              "(it is evaluated before the error exists and may raise something else)")
        tag, tt = expr(e.args[1], env)
        if tt != "S":
            raise Unsupported(f"{ctx.fn}: EncodeError tag `{u(e.args[1])}`")
        return [f"{ind}.err ⟨{tag}⟩"]
    raise Unsupported(f"{ctx.fn}: `{u(s)[:60]}`")


# ------------------------------------------------------------------------------------------------------------
# the four functions and the module frame

def params_of(fn):
    a = fn.args
    if a.vararg or a.kwarg or a.posonlyargs:
        raise Unsupported(f"{fn.name}: parameter kinds")
    return [p.arg for p in a.args], [p.arg for p in a.kwonlyargs], [u(d) for d in a.defaults + a.kw_defaults]


def gen_decode_loop(fn):
    pos, kw, _ = params_of(fn)
    if pos != ["data", "ofst", "ofst_limit", "dec", "flatten", "simple", "convert"] or kw or fn.decorator_list:
        raise Unsupported(f"_decode: parameters {pos}")
    body = [s for s in fn.body if not (isinstance(s, ast.Expr) and isinstance(s.value, ast.Constant))]
    if len(body) != 2 or not isinstance(body[0], ast.While) or body[0].orelse or not isinstance(body[1], ast.Return) or u(body[1].value) != "ofst":
        raise Unsupported("_decode: expected `while …:` followed by `return ofst`")
    w = body[0]
    ctx = Ctx("_decode", "ResC α")
    ctx.fuelvar = "fuel"
    ctx.number_loops(fn, skip=(w,))
    # a re-worded message no longer names the fault: fall back on the order of the raise sites (tag, tag, length,
    # length, value); a wrong guess cannot prove anything, the refinement theorem compares the kinds
    sites = sorted((n for n in ast.walk(fn) if isinstance(n, ast.Raise) and isinstance(n.exc, ast.Call) and u(n.exc.func) == "DecodeError"),
                   key=lambda n: (n.lineno, n.col_offset))
    if len(sites) == 5:
        ctx.site_kind = {id(n): k for n, k in zip(sites, [".tag", ".tag", ".len", ".len", ".val"])}
    env = {"data": "B", "ofst": "N", "ofst_limit": "N", "dec": "D", "log": "L", "flatten": "Bool", "simple": "Bool"}

    def ret(s, env2, ind2):
        raise Unsupported("_decode: return inside the loop")
    ctx.ret = ret
    cond = truth(w.test, env)
    again = lambda e2, i2: [f"{i2}_decode convert flatten simple data fuel ofst ofst_limit dec log"]
    lines = ["def _decode {α : Type} (convert : Bytes → Bytes → α) (flatten simple : Bool) (data : Bytes) :",
             "    Nat → Nat → Nat → DictC α → Log → ResC α",
             "  | 0, _, _, _, _ => .fuel",
             "  | fuel+1, ofst, ofst_limit, dec, log =>",
             f"    if {cond} then"]
    lines += block(w.body, env, again, ctx, "      ")
    lines += ["    else", "      .ok ofst dec log"]
    return sorted(ctx.loops), "\n".join(lines)


def is_none_default(s, name):
    """`if <name> is None: <name> = <expr>` → expr"""
    if isinstance(s, ast.If) and not s.orelse and u(s.test) == f"{name} is None" and len(s.body) == 1 and isinstance(s.body[0], ast.Assign) \
            and u(s.body[0].targets[0]) == name:
        return s.body[0].value
    return None


def gen_decode(fn):
    pos, kw, defaults = params_of(fn)
    if pos != ["data"] or kw != ["flatten", "simple", "convert"] or defaults != ["None", "None", "None"] or fn.decorator_list:
        raise Unsupported(f"decode: parameters {pos} {kw} {defaults}")
    body = [s for s in fn.body if not (isinstance(s, ast.Expr) and isinstance(s.value, ast.Constant))]
    if len(body) != 6:
        raise Unsupported("decode: body shape")
    d_fl, d_si, d_cv = (is_none_default(body[i], n) for i, n in enumerate(("flatten", "simple", "convert")))
    if d_fl is None or d_si is None or d_cv is None or u(d_fl) != "False" or u(d_si) != "False":
        raise Unsupported("decode: option defaults")
    def default_conv(e):
        """`lambda <a>, <b>: bytes(<b>)` under any two parameter names"""
        if not (isinstance(e, ast.Lambda) and len(e.args.args) == 2 and not (e.args.vararg or e.args.kwarg or e.args.kwonlyargs
                or e.args.posonlyargs or e.args.defaults)):
            return False
        a, b = (p.arg for p in e.args.args)
        return a != b and b != "bytes" and a != "bytes" and u(e.body) == f"bytes({b})"
    if not default_conv(d_cv):
        raise Unsupported(f"decode: default conversion `{u(d_cv)}`")
    if not (isinstance(body[3], (ast.AnnAssign, ast.Assign)) and u(body[3].value) == "{}" and u(body[3].target if isinstance(body[3], ast.AnnAssign) else body[3].targets[0]) == "dec"):
        raise Unsupported("decode: `dec = {}`")
    t = body[4]
    ok = (isinstance(t, ast.Try) and len(t.body) == 1 and isinstance(t.body[0], ast.Expr)
          and u(t.body[0].value) == "_decode(data, 0, len(data), dec, flatten, simple, convert)"
          and len(t.handlers) == 1 and u(t.handlers[0].type) == "DecodeError" and t.handlers[0].name == "e" and not t.orelse and not t.finalbody
          and [u(x) for x in t.handlers[0].body if not isinstance(x, ast.Expr)] == ["e.tlv = dec", "raise"])
    if not ok or u(body[5]) != "return dec":
        raise Unsupported("decode: call / error wrapper / return shape")
    return "\n".join([
        "/-- the default conversion `lambda t, v: bytes(v)` -/",
        "def convert_default : Bytes → Bytes → Bytes := fun _ v => v",
        "",
        "/-- `decode(data, *, flatten=None, simple=None, convert=None)`; the error leaves with the top-level dict (`e.tlv = dec`) -/",
        "def decode {α : Type} (convert : Bytes → Bytes → α) (flatten simple : Option Bool) (data : Bytes) : ResC α :=",
        "  let flatten := match flatten with | none => false | some v => v",
        "  let simple := match simple with | none => false | some v => v",
        "  let dec : DictC α := []",
        "  _decode convert flatten simple data (data.length + 1) 0 data.length dec []"])


def gen_encode_loop(fn):
    pos, kw, _ = params_of(fn)
    if pos != ["tlv", "simple"] or kw or fn.decorator_list:
        raise Unsupported(f"_encode: parameters {pos}")
    body = [s for s in fn.body if not (isinstance(s, ast.Expr) and isinstance(s.value, ast.Constant))]
    ok = (len(body) == 3 and isinstance(body[0], ast.Assign) and u(body[0]) == "data = bytearray()" and isinstance(body[1], ast.For)
          and u(body[1].target) == "(tag_s, value)" and u(body[1].iter) == "tlv.items()" and not body[1].orelse and u(body[2]) == "return data")
    if not ok:
        raise Unsupported("_encode: expected `data = bytearray()`, `for tag_s, value in tlv.items():`, `return data`")
    ctx = Ctx("_encode", "ERes")
    ctx.number_loops(fn)
    env = {"data": "B", "tag_s": "S", "value": "PV", "simple": "Bool"}

    def ret(s, env2, ind2):
        raise Unsupported("_encode: return inside the loop")
    ctx.ret = ret
    done = lambda e2, i2: [f"{i2}.ok data"]
    blines = block(body[1].body, env, done, ctx, "    ")
    lines = ["mutual",
             "/-- the call `_encode(value, simple)` on an object: a Mapping is iterated, anything else has no `.items` -/",
             "def _encode_call (simple : Bool) : PyVal → ERes",
             "  | .dict kvs => _encode_for simple [] kvs",
             "  | _ => .crash",
             "/-- one iteration of `for tag_s, value in tlv.items()`: the new `data` -/",
             "def _encode_body (simple : Bool) (data : Bytes) : PyStr × PyVal → ERes",
             "  | (tag_s, value) =>"] + blines + [
             "/-- the `for` loop followed by `return data` -/",
             "def _encode_for (simple : Bool) (data : Bytes) : List (PyStr × PyVal) → ERes",
             "  | [] => .ok data",
             "  | kv :: rest =>",
             "    match _encode_body simple data kv with",
             "    | .ok data => _encode_for simple data rest",
             "    | r => r",
             "end",
             "",
             "def _encode (simple : Bool) (tlv : List (PyStr × PyVal)) : ERes := _encode_for simple [] tlv"]
    return sorted(ctx.loops), "\n".join(lines)


def gen_encode(fn):
    pos, kw, defaults = params_of(fn)
    if pos != ["tlv"] or kw != ["simple"] or defaults != ["None"] or fn.decorator_list:
        raise Unsupported(f"encode: parameters {pos} {kw} {defaults}")
    body = [s for s in fn.body if not (isinstance(s, ast.Expr) and isinstance(s.value, ast.Constant))]
    if len(body) != 2 or is_none_default(body[0], "simple") is None or u(is_none_default(body[0], "simple")) != "False" \
            or u(body[1]) != "return bytes(_encode(tlv, simple))":
        raise Unsupported("encode: body shape")
    return "\n".join(["/-- `encode(tlv, *, simple=None)` -/",
                      "def encode (simple : Option Bool) (tlv : List (PyStr × PyVal)) : ERes :=",
                      "  let simple := match simple with | none => false | some v => v",
                      "  _encode simple tlv"])


def check_error_class(c, fields):
    """class X(ValueError) whose __init__ stores exactly its parameters under their own names"""
    if [u(b) for b in c.bases] != ["ValueError"] or c.decorator_list:
        raise Unsupported(f"{c.name}: bases/decorators")
    fns = [n for n in c.body if isinstance(n, ast.FunctionDef)]
    rest = [n for n in c.body if not isinstance(n, ast.FunctionDef) and not (isinstance(n, ast.Expr) and isinstance(n.value, ast.Constant))]
    if rest or len(fns) != 1 or fns[0].name != "__init__" or fns[0].decorator_list:
        raise Unsupported(f"{c.name}: members")
    init = fns[0]
    if [a.arg for a in init.args.args] != ["self"] + fields:
        raise Unsupported(f"{c.name}.__init__: parameters")
    stores = [u(s) for s in init.body if isinstance(s, ast.Assign) and u(s.targets[0]).startswith("self.")]
    if stores != [f"self.{f} = {f}" for f in fields]:
        raise Unsupported(f"{c.name}.__init__: attribute stores {stores}")
    for s in init.body:
        if isinstance(s, ast.Assign) and not u(s.targets[0]).startswith("self.") and u(s.targets[0]) != "errmsg":
            raise Unsupported(f"{c.name}.__init__: `{u(s)[:40]}`")
        if not isinstance(s, (ast.Assign, ast.Expr)):
            raise Unsupported(f"{c.name}.__init__: `{u(s)[:40]}`")


def check_module(tree):
    fns, classes = {}, {}
    for n in tree.body:
        if isinstance(n, (ast.Import, ast.ImportFrom)):
            names = [(a.name, a.asname) for a in n.names]
            if isinstance(n, ast.Import) and names == [("typing", "_t")]:
                continue
            raise Unsupported(f"tlv: import `{u(n)}`")
        if isinstance(n, ast.Expr) and isinstance(n.value, ast.Constant) and isinstance(n.value.value, str):
            continue
        if isinstance(n, ast.Assign) and u(n.targets[0]) == "__all__":
            continue
        if isinstance(n, ast.Assign) and isinstance(n.value, ast.Call) and u(n.value.func) == "_t.TypeVar" and len(n.targets) == 1:
            continue
        if isinstance(n, ast.FunctionDef):
            if [u(d) for d in n.decorator_list] == ["_t.overload"] and len(n.body) == 1 and isinstance(n.body[0], ast.Expr) \
                    and isinstance(n.body[0].value, ast.Constant) and n.body[0].value.value is Ellipsis:
                fns[n.name] = None                       # typing stub; the undecorated definition must follow
                continue
            if n.decorator_list:
                raise Unsupported(f"tlv.{n.name}: decorator")
            fns[n.name] = n
            continue
        if isinstance(n, ast.ClassDef):
            classes[n.name] = n
            continue
        raise Unsupported(f"tlv: module-level statement `{u(n)[:60]}`")
    if any(v is None for v in fns.values()):
        raise Unsupported("tlv: an @overload stub is the last definition of its name")
    # further module-level functions are not read: a call of one from the four translated functions is a name the
    # translator does not know and is refused there
    fns = {k: v for k, v in fns.items() if k in ("_decode", "_encode", "decode", "encode")}
    if sorted(fns) != ["_decode", "_encode", "decode", "encode"]:
        raise Unsupported(f"tlv: functions {sorted(fns)} (expected _decode, _encode, decode, encode)")
    if sorted(classes) != ["DecodeError", "EncodeError"]:
        raise Unsupported(f"tlv: classes {sorted(classes)}")
    check_error_class(classes["DecodeError"], ["msg", "tag", "offset", "tlv"])
    check_error_class(classes["EncodeError"], ["msg", "tag"])
    return fns


HEADER = '''import PyemvModel
/-! GENERATED by harness/translate_tlv.py from pyemv/tlv.py — do not edit. -/
namespace Pyemv.TlvGen
open Pyemv Pyemv.Tlv

/-- outcome of a `while` loop over one integer variable -/
inductive LoopRes where
  | done (v : Nat)
  | indexErr (v : Nat)        -- IndexError, with the variable's value at that moment
  | fuel

/-- outcome of the encoder: bytes, `EncodeError`, another exception, or out of fuel -/
inductive ERes where
  | ok (b : Bytes)
  | err (e : EErr)
  | crash
  | fuel

/-- `d[k]` when it holds a dict (what the aliasing call `_decode(…, dec[tag], …)` hands down) -/
def _root_.Pyemv.Tlv.DictC.getCons {α} (d : DictC α) (k : Bytes) : DictC α :=
  match d.find? (fun p => p.1 == k) with
  | some (_, .cons kids) => kids
  | _ => []

def _root_.Pyemv.Tlv.PyVal.isMapping : PyVal → Bool | .dict _ => true | _ => false
def _root_.Pyemv.Tlv.PyVal.isStr : PyVal → Bool | .str _ => true | _ => false
def _root_.Pyemv.Tlv.PyVal.isBytes : PyVal → Bool | .bytes _ => true | _ => false
def _root_.Pyemv.Tlv.PyVal.asStr? : PyVal → Option PyStr | .str s => some s | _ => none
def _root_.Pyemv.Tlv.PyVal.asBytes? : PyVal → Option Bytes | .bytes b => some b | _ => none
'''


def translate(repo):
    """(lean text, failures): the decoder half and the encoder half are translated independently; a half that is
    outside the subset is replaced by a stand-in about which no refinement theorem holds"""
    tree = ast.parse(open(os.path.join(repo, "pyemv", "tlv.py")).read())
    import pynorm
    failures = {}
    try:
        try:
            pynorm.check_package(repo)
            tree = pynorm.housekeeping(tree, "tlv")      # inert statements dropped, annotations of unchanged signatures restored
            pynorm.check_bindings(tree)           # every name the translator reads by its spelling means what it says
        except pynorm.Binding as e:
            raise Unsupported(f"tlv: {e}")
        tree = pynorm.normalise_light(tree)       # module constants, chained comparisons, conditional expressions
        tree = ast.fix_missing_locations(pynorm.int_idioms(tree))   # `>= 1 << 8k`, `x.to_bytes`, `data.append(b)`
        tree = ast.fix_missing_locations(pynorm.push_alias_into_branches(tree))   # `children = dec` / `children = dec[tag] = {}`
        fns = check_module(tree)
        # a branch for an argument form the documented kind does not include (hex text for `data`, a non-Mapping for `tlv`)
        pynorm.fold_isinstance_of_parameters(fns["decode"], {"data": "bytes"})
        pynorm.fold_isinstance_of_parameters(fns["encode"], {"tlv": "mapping"})
        ast.fix_missing_locations(tree)
    except Unsupported as e:
        fns = None
        failures["decode"] = failures["encode"] = str(e)
    parts = [HEADER]
    if fns is not None:
        try:
            dl, dcode = gen_decode_loop(fns["_decode"])
            parts += dl + [dcode, gen_decode(fns["decode"])]
        except Unsupported as e:
            failures["decode"] = str(e)
        try:
            el, ecode = gen_encode_loop(fns["_encode"])
            parts += el + [ecode, gen_encode(fns["encode"])]
        except Unsupported as e:
            failures["encode"] = str(e)
    if "decode" in failures:
        parts.append("/-- UNTRANSLATED: the current source of the decoder is outside the translator's subset -/\n"
                     "def decode {α : Type} (_convert : Bytes → Bytes → α) (_flatten _simple : Option Bool) (_data : Bytes) : ResC α := .crash")
    if "encode" in failures:
        parts.append("/-- UNTRANSLATED: the current source of the encoder is outside the translator's subset -/\n"
                     "def encode (_simple : Option Bool) (_tlv : List (PyStr × PyVal)) : ERes := .crash")
    parts += ["end Pyemv.TlvGen", ""]
    return "\n\n".join(parts), failures


def main():
    import json
    repo, out = sys.argv[1], sys.argv[2]
    text, failures = translate(repo)
    tmp = out + ".tmp"
    with open(tmp, "w") as f:
        f.write(text)
    os.replace(tmp, out)
    with open(out + ".failures.json", "w") as f:
        json.dump(failures, f, indent=1)
    for k, m in failures.items():
        print(f"translate_tlv: unsupported construct in {k}: {m}")
    print("translate_tlv: ok" if not failures else f"translate_tlv: {len(failures)} half/halves not translated")
    sys.exit(3 if failures else 0)


if __name__ == "__main__":
    main()
