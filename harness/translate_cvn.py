"""Translator: pyemv/cvn.py (the eight near-identical class copies) -> Lean definitions.

cvn.py is straight-line code over a tiny subset of Python: assignments, one `if x is None`, returns,
`+` on bytes, `b"\\x00" * n`, `psn or "00"`, attribute reads of `self`, calls of `_kd/_ac/_sm` functions
and of the object's own methods, enum members and small integers.  Every construct outside that subset
makes the translation fail loudly (never guessed).  The generated file `lean/PyemvGen/CvnGen.lean` is
regenerated from the repository's *current* source on every run; `lean/PyemvGen/CvnRefines.lean`
(hand-written, committed) proves that each generated method equals the documented profile row read by
the generic functions of `PyemvModel/Cvn.lean`.

usage: translate_cvn.py <repo> <out.lean>     exit 0 ok / 3 unsupported construct
"""
import ast
import os
import sys

KD = {"derive_icc_mk_a": ("deriveIccMkA", ["b", "sb", "osb"]),
      "derive_icc_mk_b": ("deriveIccMkB", ["b", "sb", "osb"]),
      "derive_common_sk": ("deriveCommonSk", ["b", "b"]),
      "derive_visa_sm_sk": ("deriveVisaSmSk", ["b", "b"])}
AC = {"generate_ac": ("Pyemv.generateAc", ["b", "b", "opt", "optn"]),
      "generate_arpc_1": ("generateArpc1", ["b", "b", "b"]),
      "generate_arpc_2": ("generateArpc2", ["b", "b", "b", "ob"])}
SM = {"generate_command_mac": ("generateCommandMac", ["b", "b", "optn"]),
      "encrypt_command_data": ("encryptCommandData", ["b", "b", "et"]),
      "format_vis_pin_block": ("formatVisPinBlock", ["b", "sb", "osb"]),
      "format_iso9564_2_pin_block": ("formatIso2PinBlock", ["sb"])}
MODS = {"_kd": KD, "_ac": AC, "_sm": SM}
ATTRS = {"icc_mk_ac": "ac", "icc_mk_smi": "smi", "icc_mk_smc": "smc"}
TYPES = {"bytes": "Bytes", "_typing.Union[bytes, str]": "StrOrBytes",
         "_typing.Optional[_typing.Union[bytes, str]]": "Option StrOrBytes",
         "_typing.Optional[bytes]": "Option Bytes"}


class Unsupported(Exception):
    pass


def ident(name):
    return "v_" + name


class Method:
    def __init__(self, cls, fn, methods):
        self.cls = cls; self.fn = fn; self.methods = methods
        self.lines = []; self.tmp = 0; self.types = {}

    def fresh(self):
        self.tmp += 1
        return f"t{self.tmp}"

    def bytes_const(self, b):
        return "([" + ", ".join(f"0x{x:02X}" for x in b) + "] : Bytes)"

    def expr(self, e, want="b", ind="  "):
        """returns a Lean term of the wanted kind, emitting `let x <- ...` lines for calls"""
        if isinstance(e, ast.Name):
            t = self.types.get(e.id)
            if t is None:
                raise Unsupported(f"unknown name {e.id}")
            v = ident(e.id)
            if want in ("b", "sb") and t in ("Bytes", "StrOrBytes"):
                return v
            if want == "osb":
                return v if t == "Option StrOrBytes" else f"(some {v})"
            if want == "ob":
                return v if t == "Option Bytes" else f"(some {v})"
            if want in ("b", "sb"):
                raise Unsupported(f"{e.id} : {t} used where {want} is wanted")
            return v
        if isinstance(e, ast.Constant):
            if isinstance(e.value, bytes) and want in ("b", "ob"):
                c = self.bytes_const(e.value)
                return c if want == "b" else f"(some {c})"
            if isinstance(e.value, int) and not isinstance(e.value, bool) and want == "optn":
                return f"(some {e.value})"
            if isinstance(e.value, str) and want in ("sb", "osb"):
                c = "(StrOrBytes.str [" + ", ".join("'" + ch + "'" for ch in e.value) + "])"
                return c if want == "sb" else f"(some {c})"
            raise Unsupported(f"constant {e.value!r} as {want}")
        if isinstance(e, ast.Attribute):
            if isinstance(e.value, ast.Name) and e.value.id == "self" and e.attr in ATTRS and want == "b":
                return f"self.{ATTRS[e.attr]}"
            s = ast.unparse(e)
            if s in ("_ac.PaddingType.VISA", "_ac.PaddingType.EMV") and want == "opt":
                return "(some PaddingType." + s.rsplit(".", 1)[1].lower() + ")"
            if s.startswith("_sm.EncryptionType.") and want == "et":
                return "EncryptionType." + s.rsplit(".", 1)[1].lower()
            raise Unsupported(f"attribute {s} as {want}")
        if isinstance(e, ast.BinOp) and isinstance(e.op, ast.Add) and want == "b":
            return f"({self.expr(e.left, 'b', ind)} ++ {self.expr(e.right, 'b', ind)})"
        if isinstance(e, ast.BinOp) and isinstance(e.op, ast.Mult) and want == "b":
            if isinstance(e.left, ast.Constant) and isinstance(e.left.value, bytes) and isinstance(e.right, ast.Constant) \
                    and isinstance(e.right.value, int):
                return self.bytes_const(e.left.value * e.right.value)
            raise Unsupported("multiplication " + ast.unparse(e))
        if isinstance(e, ast.BoolOp) and isinstance(e.op, ast.Or) and len(e.values) == 2 and want in ("sb",):
            a, b = e.values
            if isinstance(a, ast.Name) and self.types.get(a.id) == "Option StrOrBytes" and isinstance(b, ast.Constant) \
                    and b.value == "00":
                return f"(Cvn.psnOr00 {ident(a.id)})"
            raise Unsupported("or-expression " + ast.unparse(e))
        if isinstance(e, ast.Call):
            f = e.func
            if e.keywords:
                raise Unsupported("keyword arguments")
            if isinstance(f, ast.Attribute) and isinstance(f.value, ast.Name) and f.value.id in MODS:
                table = MODS[f.value.id]
                if f.attr not in table:
                    raise Unsupported("call " + ast.unparse(f))
                lean, kinds = table[f.attr]
                args = list(e.args)
                if len(args) > len(kinds):
                    raise Unsupported("too many arguments: " + ast.unparse(e))
                terms = [self.expr(a, k, ind) for a, k in zip(args, kinds)]
                for k in kinds[len(args):]:                       # defaulted trailing parameters
                    if k in ("osb", "ob", "optn", "opt"):
                        terms.append("none")
                    else:
                        raise Unsupported("missing argument: " + ast.unparse(e))
                t = self.fresh()
                self.lines.append(f"{ind}let {t} ← {lean} {' '.join(terms)}")
                return self.coerce(t, "Bytes", want)
            if isinstance(f, ast.Attribute) and isinstance(f.value, ast.Name) and f.value.id == "self":
                if f.attr not in self.methods:
                    raise Unsupported("unknown method " + f.attr)
                params = self.methods[f.attr]
                if len(e.args) > len(params):
                    raise Unsupported("too many arguments: " + ast.unparse(e))
                terms = []
                for a, (pn, pt, dflt) in zip(e.args, params):
                    terms.append(self.expr(a, {"Bytes": "b", "StrOrBytes": "sb", "Option StrOrBytes": "osb", "Option Bytes": "ob"}[pt], ind))
                for (pn, pt, dflt) in params[len(e.args):]:
                    if dflt is None:
                        raise Unsupported("missing argument: " + ast.unparse(e))
                    terms.append(dflt)
                t = self.fresh()
                self.lines.append(f"{ind}let {t} ← {self.cls}.{f.attr} self {' '.join(terms)}")
                return self.coerce(t, "Bytes", want)
        raise Unsupported(f"expression {ast.unparse(e)} as {want}")

    def coerce(self, v, have, want):
        if want in ("b",) and have == "Bytes":
            return v
        if want == "ob" and have == "Bytes":
            return f"(some {v})"
        raise Unsupported(f"result of type {have} used as {want}")

    def assign(self, st, ind):
        if len(st.targets) != 1:
            raise Unsupported("multiple targets")
        tg = st.targets[0]
        if isinstance(tg, ast.Name):
            # rebinding a parameter with `x or "00"` changes its type
            if isinstance(st.value, ast.BoolOp):
                term = self.expr(st.value, "sb", ind)
                self.lines.append(f"{ind}let {ident(tg.id)} : StrOrBytes := {term}")
                self.types[tg.id] = "StrOrBytes"
            else:
                term = self.expr(st.value, "b", ind)
                self.lines.append(f"{ind}let {ident(tg.id)} : Bytes := {term}")
                self.types[tg.id] = "Bytes"
            return
        if isinstance(tg, ast.Attribute) and isinstance(tg.value, ast.Name) and tg.value.id == "self" and tg.attr in ATTRS:
            term = self.expr(st.value, "b", ind)
            self.lines.append(f"{ind}let s_{ATTRS[tg.attr]} : Bytes := {term}")
            self.types["self." + tg.attr] = "Bytes"
            return
        raise Unsupported("assignment target " + ast.unparse(tg))

    def body(self, stmts, ind="  "):
        for st in stmts:
            if isinstance(st, ast.Expr) and isinstance(st.value, ast.Constant) and isinstance(st.value.value, str):
                continue
            if isinstance(st, ast.Assign):
                self.assign(st, ind)
            elif isinstance(st, ast.Return):
                term = self.expr(st.value, "b", ind)
                self.lines.append(f"{ind}pure {term}")
            elif isinstance(st, ast.If):
                t = st.test
                if not (isinstance(t, ast.Compare) and len(t.ops) == 1 and isinstance(t.ops[0], ast.Is)
                        and isinstance(t.left, ast.Name) and isinstance(t.comparators[0], ast.Constant)
                        and t.comparators[0].value is None and self.types.get(t.left.id, "").startswith("Option")):
                    raise Unsupported("if-test " + ast.unparse(t))
                names = []
                for br in (st.body, st.orelse):
                    ns = []
                    for s2 in br:
                        if not (isinstance(s2, ast.Assign) and len(s2.targets) == 1 and isinstance(s2.targets[0], ast.Name)):
                            raise Unsupported("if-branch statement " + ast.unparse(s2))
                        ns.append(s2.targets[0].id)
                    names.append(sorted(ns))
                if names[0] != names[1] or not names[0]:
                    raise Unsupported("if-branches assign different names")
                vs = names[0]
                tup = "(" + ", ".join(ident(v) for v in vs) + ")" if len(vs) > 1 else ident(vs[0])
                ty = " × ".join("Bytes" for _ in vs)
                self.lines.append(f"{ind}let {tup} : {ty} ← (match {ident(t.left.id)} with")
                for pat, br in (("none", st.body), ("some _", st.orelse)):
                    self.lines.append(f"{ind}  | {pat} => do")
                    saved = dict(self.types)
                    self.body(br, ind + "      ")
                    self.lines.append(f"{ind}      pure {tup}")
                    self.types = saved
                self.lines[-1] += ")"
                for v in vs:
                    self.types[v] = "Bytes"
            else:
                raise Unsupported("statement " + type(st).__name__)


def translate(repo):
    src = open(repo + "/pyemv/cvn.py").read()
    tree = ast.parse(src)
    import pynorm
    try:
        pynorm.check_package(repo)
        tree = pynorm.housekeeping(tree, "cvn")          # inert statements dropped, annotations of unchanged signatures restored
        pynorm.check_bindings(tree)               # every name the translator reads by its spelling means what it says
    except pynorm.Binding as e:
        raise Unsupported(f"cvn: {e}")
    sigs = {}
    for mod in ("ac", "kd", "sm"):
        try:
            t = ast.parse(open(f"{repo}/pyemv/{mod}.py").read())
        except Exception:  # noqa: BLE001
            continue
        for n in t.body:
            if isinstance(n, ast.FunctionDef) and not (n.args.vararg or n.args.kwarg or n.args.kwonlyargs or n.args.posonlyargs):
                sigs[f"_{mod}.{n.name}"] = [a.arg for a in n.args.args]
    # module constants, chained comparisons, conditional expressions, `is not None` with an else, keyword arguments
    tree = pynorm.normalise_light(tree, signatures=sigs)
    tree = pynorm.inline_expression_helpers(tree, set())   # module-level private helpers called from the methods
    tree = pynorm.inline_helpers(tree, set())
    tree = pynorm.fold_all_constant_ifs(tree)               # e.g. a validation helper inlined at the default of a new parameter
    ast.fix_missing_locations(tree)
    out = ["import PyemvModel.Cvn",
           "/-! GENERATED by harness/translate_cvn.py from pyemv/cvn.py — do not edit. -/",
           "namespace Pyemv.CvnGen", "open Pyemv", ""]
    classes = []
    pinned_classes = {n.name for n in ast.parse(open(os.path.join(os.path.dirname(os.path.abspath(__file__)), "pinned_src", "cvn.py")).read()).body
                      if isinstance(n, ast.ClassDef)}
    extra = [n for n in tree.body if isinstance(n, ast.ClassDef) and n.name not in pinned_classes and pynorm.inert_class(n)]
    tree.body = [n for n in tree.body if n not in extra]     # further classes that cannot change the documented eight
    for n in tree.body:            # nothing at module level may carry state or wrap a class
        if isinstance(n, (ast.Import, ast.ImportFrom)):
            continue
        if isinstance(n, ast.Expr) and isinstance(n.value, ast.Constant) and isinstance(n.value.value, str):
            continue
        if isinstance(n, ast.Assign) and len(n.targets) == 1 and isinstance(n.targets[0], ast.Name) and n.targets[0].id == "__all__":
            continue
        if isinstance(n, ast.ClassDef) and not n.decorator_list and not n.bases and not n.keywords:
            for st in n.body:
                if isinstance(st, ast.Expr) and isinstance(st.value, ast.Constant):
                    continue
                if isinstance(st, ast.FunctionDef) and not st.decorator_list:
                    continue
                raise Unsupported(f"{n.name}: class-level statement `{ast.unparse(st)[:50]}`")
            continue
        raise Unsupported(f"module-level statement `{ast.unparse(n)[:60]}`")
    for cls in [n for n in tree.body if isinstance(n, ast.ClassDef)]:
        methods = {}
        fns = [n for n in cls.body if isinstance(n, ast.FunctionDef)]
        seen = set()
        for fn in fns:
            if fn.name in seen:
                raise Unsupported(f"{cls.name}.{fn.name} is defined twice")
            seen.add(fn.name)
            if fn.name.startswith("__") and fn.name != "__init__":
                raise Unsupported(f"{cls.name}.{fn.name}: a special method changes what attribute access / calls on the object mean")
            if not fn.args.args or fn.args.args[0].arg != "self":
                raise Unsupported(f"{cls.name}.{fn.name}: first parameter is not `self`")
            params = []
            a = fn.args
            if a.vararg or a.kwarg or a.kwonlyargs or a.posonlyargs:
                raise Unsupported(f"{cls.name}.{fn.name}: parameter kinds")
            pos = a.args[1:]
            defaults = [None] * (len(pos) - len(a.defaults)) + list(a.defaults)
            for p, d in zip(pos, defaults):
                ann = ast.unparse(p.annotation) if p.annotation else None
                if ann not in TYPES:
                    raise Unsupported(f"{cls.name}.{fn.name}: annotation {ann}")
                dt = None
                if d is not None:
                    if isinstance(d, ast.Constant) and d.value is None:
                        dt = "none"
                    elif isinstance(d, ast.Constant) and d.value == b"":
                        dt = "([] : Bytes)"
                    else:
                        raise Unsupported(f"{cls.name}.{fn.name}: default {ast.unparse(d)}")
                params.append((p.arg, TYPES[ann], dt))
            methods[fn.name] = params
        out.append(f"namespace {cls.name}")
        for fn in fns:
            m = Method(cls.name, fn, methods)
            for (pn, pt, _) in methods[fn.name]:
                m.types[pn] = pt
            sig = " ".join(f"({ident(pn)} : {pt})" for (pn, pt, _) in methods[fn.name])
            if fn.name == "__init__":
                m.body(fn.body)
                for k in ("ac", "smi", "smc"):
                    if not any(ln.strip().startswith(f"let s_{k} ") for ln in m.lines):
                        raise Unsupported(f"{cls.name}.__init__ does not set {k}")
                out.append(f"def new {sig} : R Cvn.Card := do")
                out += m.lines
                out.append("  pure ⟨s_ac, s_smi, s_smc⟩")
            else:
                m.body(fn.body)
                out.append(f"def {fn.name} (self : Cvn.Card) {sig} : R Bytes := do")
                out += m.lines
            out.append("")
        out.append(f"end {cls.name}")
        out.append("")
        classes.append(cls.name)
    out.append("def classes : List String := [" + ", ".join('"' + c + '"' for c in classes) + "]")
    out.append("")
    out.append("end Pyemv.CvnGen")
    return "\n".join(out) + "\n"


if __name__ == "__main__":
    try:
        text = translate(sys.argv[1])
    except Unsupported as e:
        print("translate_cvn: unsupported construct: " + str(e))
        sys.exit(3)
    import os
    path = sys.argv[2]
    old = open(path).read() if os.path.exists(path) else None
    if old != text:
        os.makedirs(os.path.dirname(path), exist_ok=True)
        with open(path, "w") as f:
            f.write(text)
    print("translate_cvn: ok")
