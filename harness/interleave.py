"""Deterministic exploration of two things a history of complete, successful calls never shows:

* **preemption** — another call running to completion *between two lines* of a call in progress (what a second
  thread does at a thread switch, or a callback that re-enters the library): the first call is run under
  `sys.monitoring` LINE events restricted to /repo's pyemv files, and at a chosen line event a second thread is
  started, runs the other call, and is joined (with a time-out, so a callee that holds a lock simply makes that
  switch point infeasible, as it would be for a real thread) before the first call continues;
* **faults** — a call that is cut short at a chosen line by an exception (what KeyboardInterrupt, MemoryError, or an
  argument that fails deep inside the call do), followed by ordinary calls.

Both are driven from operation lines of the property's own agreeing cases, so the expected answer of every call is
the Lean model's.  Nothing here decides anything by itself: a wrong answer is reported as a disagreement with the
history that produced it.
"""
import os
import sys
import threading

import core
import pyexec

TOOL = 3
_mon = getattr(sys, "monitoring", None)


class InjectedFault(Exception):
    """raised inside the library at a chosen line"""


class _Driver:
    def __init__(self, event="LINE"):
        self.event = getattr(_mon.events, event)
        self.by_instruction = event == "INSTRUCTION"
        self.prefix = os.path.join(os.path.realpath(core.REPO), "pyemv") + os.sep
        self.active = False
        self.main = None
        self.count = 0
        self.at = None            # set of event indices at which to act (None = every event)
        self.action = None        # callable run at the chosen events
        self.busy = False
        self.where = []

    def cb(self, code, line):
        fn = code.co_filename
        if not fn.startswith(self.prefix):
            return _mon.DISABLE
        if not self.active or self.busy or threading.get_ident() != self.main:
            return None
        self.count += 1
        if self.action is not None and (self.at is None or self.count in self.at):
            self.busy = True
            try:
                self.where.append(f"{os.path.basename(fn)}:{code.co_name}+{line}" if self.by_instruction else f"{os.path.basename(fn)}:{line}")
                self.action()
            finally:
                self.busy = False
        return None

    def __enter__(self):
        _mon.use_tool_id(TOOL, "verif-interleave")
        _mon.register_callback(TOOL, self.event, self.cb)
        _mon.set_events(TOOL, self.event)
        return self

    def __exit__(self, *a):
        _mon.set_events(TOOL, 0)
        _mon.register_callback(TOOL, self.event, None)
        _mon.free_tool_id(TOOL)

    def run(self, thunk, at, action):
        """canonical outcome of `thunk()` with `action` run at the line events in `at`; (outcome, events, where)"""
        self.main = threading.get_ident()
        self.count = 0; self.at = at; self.action = action; self.where = []
        _mon.restart_events()
        self.active = True
        try:
            out = core.canon(thunk)
        finally:
            self.active = False
        return out, self.count, list(self.where)


def available():
    return _mon is not None


_wait = [0.5]


def _in_thread(fn, results):
    """run fn in a second thread and wait for it (bounded); the thread is returned so it can be joined later.
    A second thread that does not finish (the suspended call holds a lock it needs) makes later waits short: that
    switch point is not feasible for a real thread either."""
    def body():
        results.append(fn())
    t = threading.Thread(target=body, daemon=True)
    t.start()
    t.join(_wait[0])
    if t.is_alive():
        _wait[0] = 0.02
    return t


def _pick(n, cap):
    if n <= cap:
        return list(range(1, n + 1))
    step = n / cap
    return sorted({1, n} | {int(1 + i * step) for i in range(cap)})


def session(ctx, keep, PROJ, budget_s, per_call_events, event="LINE"):
    """preemption and fault exploration over the reproducible cases `keep` = [(line, proj, want)]; switch points are
    line boundaries (`event="LINE"`) or bytecode instruction boundaries (`"INSTRUCTION"`: also inside one line)"""
    import time
    if not available() or not keep:
        return
    t0 = time.time()
    by_op = {}
    for i, (line, proj, want) in enumerate(keep):
        w = line.split()
        key = w[0] + (" " + " ".join(w[1:7]) if w[0] == "cvn" else "")
        by_op.setdefault(key, []).append(i)
        by_op.setdefault(w[0], []).append(i)
    stats = {"calls_preempted": 0, "switch_points": 0, "faults_injected": 0, "calls_checked": 0}
    rnd = ctx.sub("interleave" + event)
    order = list(range(len(keep)))
    rnd.shuffle(order)
    # every distinct operation gets its turn before any operation gets a second one (the budget is small, and a window
    # in one function must not depend on that function being drawn early)
    groups = {}
    for i in order:
        groups.setdefault(keep[i][0].split()[0] + (" " + keep[i][0].split()[7] if keep[i][0].startswith("cvn ") and len(keep[i][0].split()) > 7 else ""), []).append(i)
    keys = sorted(groups); rnd.shuffle(keys)
    order = []
    while any(groups.values()):
        for k in keys:
            if groups[k]:
                order.append(groups[k].pop(0))

    def agree(line, proj, want, got):
        return PROJ[proj](got) == PROJ[proj](want)

    def report(kind, line, proj, want, got, history, note, rec=None):
        ctx.violations.append({"kind": "interleave", "op": line, "gen": kind, "proj": proj, "model": want, "pyemv": got,
                               "history": history, "note": note, "interleave": rec, "predicate": kind,
                               "detail": " ; ".join(history)[:1500] + f" -> pyemv {got[:200]}, model {want[:200]}"})

    old_live = pyexec._live
    pyexec._live = {}
    failed = False
    try:
        with _Driver(event) as drv:
            for xi in order:
                if time.time() - t0 > budget_s or failed:
                    break
                xline, xproj, xwant = keep[xi]
                if len(xline) > 4000:
                    continue
                w = xline.split()
                same_obj = by_op.get(w[0] + (" " + " ".join(w[1:7]) if w[0] == "cvn" else ""), [])
                same_op = by_op.get(w[0], [])
                others = []
                for pool in (same_obj, same_op):
                    cand = [j for j in pool if keep[j][0] != xline and len(keep[j][0]) <= 4000]
                    if cand:
                        others.append(cand[rnd.randrange(len(cand))])
                ys = [xi] + others[:2]                      # the same call again, and up to two different ones
                try:
                    xthunk = pyexec.thunk(xline)
                except Exception:  # noqa: BLE001
                    continue
                got, n_events, _ = drv.run(xthunk, set(), None)
                if not agree(xline, xproj, xwant, got) or n_events == 0:
                    continue                                # not reproducible under monitoring: skip
                # first pass (one call per operation): few switch points each, so that every operation is reached within the budget
                first_pass = order.index(xi) < len(keys)
                points = _pick(n_events, min(per_call_events, 6) if first_pass else per_call_events)
                # --- faults: X is cut short by an exception at a line, then X (same objects) and a Y run normally
                for k in points:
                    if time.time() - t0 > budget_s:
                        break
                    xt = pyexec.thunk(xline)

                    def boom():
                        raise InjectedFault()
                    got, _, where = drv.run(xt, {k}, boom)
                    stats["faults_injected"] += 1
                    hist = [f"[cut short by an exception at {where[0] if where else '?'}] {xline}"]
                    rec = {"mode": "fault", "x": xline, "xproj": xproj, "xwant": xwant, "at": k, "event": event,
                           "ys": [list(keep[j]) for j in ys[1:]]}
                    g2 = core.canon(xt)                      # the same thunk: the same argument objects
                    stats["calls_checked"] += 1
                    if not agree(xline, xproj, xwant, g2):
                        report("fault session", xline, xproj, xwant, g2, hist + [xline],
                               "the same call, on the same argument objects, after an earlier attempt was cut short by an exception at the named line", rec)
                        failed = True; break
                    for yi in ys[1:]:
                        yline, yproj, ywant = keep[yi]
                        g3 = core.canon(pyexec.thunk(yline))
                        stats["calls_checked"] += 1
                        if not agree(yline, yproj, ywant, g3):
                            report("fault session", yline, yproj, ywant, g3, hist + [xline, yline],
                                   "a later call after an earlier one was cut short by an exception at the named line", rec)
                            failed = True; break
                    if failed:
                        break
                if failed:
                    break
                for yi in ys:
                    yline, yproj, ywant = keep[yi]
                    # --- preemption: Y runs to completion at one switch point of X, in a second thread
                    for mode in ["every"] + points:
                        if time.time() - t0 > budget_s:
                            break
                        yres = []; threads = []

                        def act():
                            if sum(t.is_alive() for t in threads) >= 2:
                                return                      # second threads are queueing on a lock the call holds
                            try:
                                th = pyexec.thunk(yline)
                            except Exception:  # noqa: BLE001
                                return
                            threads.append(_in_thread(lambda: core.canon(th), yres))
                        xt = pyexec.thunk(xline)
                        got, _, where = drv.run(xt, None if mode == "every" else {mode}, act)
                        for t in threads:
                            t.join(5)
                        stats["calls_preempted"] += 1; stats["switch_points"] += len(where)
                        hist = [f"[thread 1 starts] {xline}"] + [f"[thread 2, at {p} of thread 1's call] {yline}" for p in where[:3]]
                        rec = {"mode": "preempt", "x": xline, "xproj": xproj, "xwant": xwant, "y": yline, "yproj": yproj, "ywant": ywant,
                               "at": mode, "event": event}
                        if not agree(xline, xproj, xwant, got):
                            report("preemption session", xline, xproj, xwant, got, hist,
                                   "the call was preempted at the named line(s) by another complete call in a second thread", rec)
                            failed = True; break
                        bad = [r for r in yres if not agree(yline, yproj, ywant, r)]
                        if bad:
                            report("preemption session", yline, yproj, ywant, bad[0], hist,
                                   "this call ran to completion in a second thread while the first call was suspended at the named line", rec)
                            failed = True; break
                        # afterwards, sequentially: both calls must still give the model's answers
                        for (l, p, wnt) in ((xline, xproj, xwant), (yline, yproj, ywant)):
                            g2 = core.canon(pyexec.thunk(l))
                            stats["calls_checked"] += 1
                            if not agree(l, p, wnt, g2):
                                report("preemption session", l, p, wnt, g2, hist + [f"[afterwards, one thread] {l}"],
                                       "a sequential call after the interleaved pair", rec)
                                failed = True; break
                        if failed:
                            break
                    if failed:
                        break
    finally:
        pyexec._live = old_live
    ctx.relational["preemption / fault session: same answers"] += stats["calls_preempted"] + stats["calls_checked"]
    ctx.evaluations += stats["calls_preempted"] + stats["calls_checked"] + stats["faults_injected"]
    stats["wall_s"] = round(time.time() - t0, 1)
    stats["switch_points_are"] = "line boundaries" if event == "LINE" else "bytecode instruction boundaries"
    ctx.extra["interleave_session" if event == "LINE" else "interleave_session_instructions"] = stats


def replay(rec, PROJ):
    """re-execute a recorded preemption / fault history on the current tree; number of wrong answers"""
    bad = 0
    old_live = pyexec._live
    pyexec._live = {}

    def show(tag, line, proj, want, got):
        nonlocal bad
        diff = PROJ[proj](got) != PROJ[proj](want)
        bad += diff
        print(f"  {tag}\n    op    : {line[:300]}\n    model : {want[:200]}\n    pyemv : {got[:200]}\n    {'DISAGREE' if diff else 'agree'}")
    try:
        with _Driver(rec.get("event", "LINE")) as drv:
            if rec["mode"] == "preempt":
                yres = []; threads = []

                def act():
                    th = pyexec.thunk(rec["y"])
                    threads.append(_in_thread(lambda: core.canon(th), yres))
                at = None if rec["at"] == "every" else {int(rec["at"])}
                got, n, where = drv.run(pyexec.thunk(rec["x"]), at, act)
                for t in threads:
                    t.join(5)
                show(f"thread 1 (suspended at {', '.join(where[:4])} while thread 2 ran its call)", rec["x"], rec["xproj"], rec["xwant"], got)
                for r in yres[:3]:
                    show("thread 2", rec["y"], rec["yproj"], rec["ywant"], r)
                show("afterwards, one thread", rec["x"], rec["xproj"], rec["xwant"], core.canon(pyexec.thunk(rec["x"])))
                show("afterwards, one thread", rec["y"], rec["yproj"], rec["ywant"], core.canon(pyexec.thunk(rec["y"])))
            else:
                xt = pyexec.thunk(rec["x"])

                def boom():
                    raise InjectedFault()
                got, n, where = drv.run(xt, {int(rec["at"])}, boom)
                print(f"  first attempt cut short at {where[0] if where else '?'}: {got[:80]}")
                show("the same call again (same argument objects)", rec["x"], rec["xproj"], rec["xwant"], core.canon(xt))
                for l, p, w in rec.get("ys", []):
                    show("a later call", l, p, w, core.canon(pyexec.thunk(l)))
    finally:
        pyexec._live = old_live
    return bad
