"""Seeded generators shared by the property checks (DESIGN.md §5.4)."""
import collections.abc
import hashlib

from core import (Case, S, SB, ac, cvn, cvv, hx, kd, mac, opt, optn, sm, tlv, tools, tree_tokens)

ALPHABET = [0x00, 0x01, 0x02, 0x03, 0x1F, 0x3F, 0x7F, 0x80, 0x81, 0x82, 0x9C, 0x9F, 0xE0, 0xFF]
PT = {"VISA": ac.PaddingType.VISA, "EMV": ac.PaddingType.EMV, "-": None}
ET = {"VISA": sm.EncryptionType.VISA, "MASTERCARD": sm.EncryptionType.MASTERCARD, "EMV": sm.EncryptionType.EMV}
# objects that are not members of the enum in question
import enum as _enum
import pathlib as _pathlib
import types as _types


class MaskedStr(str):
    """text that shows itself masked: str(x), format(x) and repr(x) are not its content"""

    def __str__(self):
        return "*" * len(self)

    def __format__(self, spec):
        return format("*" * len(self), spec)

    def __repr__(self):
        return "MaskedStr(" + "*" * len(self) + ")"


class IntLike:
    """an integer object that is not an int: only __index__ (as numpy / ctypes fixed-width integers are to slicing)"""

    def __init__(self, n):
        self._n = n

    def __index__(self):
        return self._n

    def __repr__(self):
        return f"IntLike({self._n})"


def int_forms(n):
    """the same integer as an int, a bool-free IntEnum member and an __index__-only object"""
    if n is None:
        return [None]
    return [n, _enum.IntEnum("Len", {"N": n}).N, IntLike(n)]


class _ForeignEnum(_enum.Enum):
    VISA = 1
    MASTERCARD = 2
    EMV = 3


class _ForeignIntEnum(_enum.IntEnum):
    VISA = 1
    EMV = 2


NON_MEMBERS = [1, 2, "EMV", "VISA", 2.0, b"\x02", sm.EncryptionType.EMV, sm.EncryptionType.VISA, ac.PaddingType.EMV,
               ac.PaddingType.VISA, object(), _ForeignEnum.EMV, _ForeignEnum.VISA, _ForeignEnum.MASTERCARD,
               _ForeignIntEnum.EMV, _ForeignIntEnum.VISA, _types.SimpleNamespace(name="EMV", value=2),
               _types.SimpleNamespace(name="VISA", value=1), _pathlib.PurePosixPath("keys/EMV"), True, [], {},
               b"EMV", bytearray(b"VISA"), (), (1, 2), (2,), frozenset(), 0, -1, 3, MaskedStr("EMV")]
# values that are not MAC padding methods (C15: anything but 1 or 2 is refused with ValueError)
# (bytes objects are left out: comparing them with 1 is itself an error under `python -bb`, whatever the code does)
BAD_PADDINGS = [0, 3, -1, 8, None, "1", "2", (), (1, 2), (2, 8), (1,), [1], [2], {}, 1.5, object(), True + 2]
WEAK_KEYS = [bytes.fromhex(k) for k in (
    "0101010101010101", "FEFEFEFEFEFEFEFE", "E0E0E0E0F1F1F1F1", "1F1F1F1F0E0E0E0E",
    "011F011F010E010E", "1F011F010E010E01")]


import re as _re
import traffic

HINTS = None      # hints.Hints when the current source holds constants the snapshot lacks (change-directed search aid)


def hinted_bytes(R, n, base=None):
    """n bytes of random content carrying one hinted pattern at a place where structure tends to matter: an end, a block
    boundary, anywhere; or filled with a hinted byte value"""
    m = bytearray(base if base is not None else R.randbytes(n))
    if not HINTS or not n:
        return bytes(m)
    c = R.random()
    if c < .15 and HINTS.byte_values:
        return bytes([R.choice(HINTS.byte_values)]) * n
    if HINTS.patterns:
        for _ in range(R.choice([1, 1, 2])):
            p = R.choice(HINTS.patterns)[:n]
            where = R.choice(["start", "end", "end", "block", "blockend", "any"])
            if where == "start": i = 0
            elif where == "end": i = n - len(p)
            elif where == "block": i = min(n - len(p), 8 * R.randrange(0, n // 8 + 1))
            elif where == "blockend": i = max(0, min(n - len(p), 8 * R.randrange(1, n // 8 + 2) - len(p)))
            else: i = R.randrange(0, n - len(p) + 1)
            m[i:i + len(p)] = p
    return bytes(m)


def des_ecb(k8, block):
    """single DES on one block by the `cryptography` library (independent of the code under test)"""
    from cryptography.hazmat.primitives.ciphers import Cipher, algorithms, modes
    import warnings
    with warnings.catch_warnings():
        warnings.simplefilter("ignore")
        return Cipher(algorithms.TripleDES(k8), modes.ECB()).encryptor().update(block)


def tdes_block(k, block, decrypt=False):
    """TDES on one block by the `cryptography` library (independent of the code under test)"""
    from cryptography.hazmat.primitives.ciphers import Cipher, algorithms, modes
    import warnings
    with warnings.catch_warnings():
        warnings.simplefilter("ignore")
        c = Cipher(algorithms.TripleDES(k), modes.ECB())
        return (c.decryptor() if decrypt else c.encryptor()).update(block)


SPECIAL_BLOCKS = WEAK_KEYS + [bytes(8), b"\xff" * 8, bytes.fromhex("01FE01FE01FE01FE"), bytes.fromhex("FE01FE01FE01FE01"),
                              bytes.fromhex("1FE01FE00EF10EF1"), bytes.fromhex("E0FEE0FEF1FEF1FE")]


def preimages_of_special_blocks(k, accept, limit=8):
    """inputs X with TDES_k(X) equal, up to the parity bits, to a special block (a weak / semi-weak DES key, all zero,
    all ones) and `accept(X)` true — found by *decrypting* the special values (the cipher is invertible, so a special
    output can be solved for, where random inputs reach it with probability 2^-56)"""
    out = []
    for t in SPECIAL_BLOCKS:
        for m in range(256):
            mask = bytes((m >> i) & 1 for i in range(8))
            x = tdes_block(k, bytes(a ^ b for a, b in zip(t, mask)), decrypt=True)
            if accept(x):
                out.append(x)
                if len(out) >= limit:
                    return out
    return out


def cbc_fixed_point_message(R, k8, nblocks, at=None, value=bytes(8)):
    """`nblocks` 8-byte blocks such that, in a CBC pass under `k8` from a zero IV, the input of the cipher at block
    `at` (chaining value xor plaintext block) is `value` — all zero by default: the plaintext block *equals* the
    chaining value there.  A relation between the key and two neighbouring parts of the message that uniformly random
    contents never have."""
    at = R.randrange(1, nblocks) if at is None and nblocks > 1 else (at or 0)
    blocks = []; h = bytes(8)
    for i in range(nblocks):
        b = bytes(x ^ y for x, y in zip(h, value)) if i == at else R.randbytes(8)
        blocks.append(b)
        h = des_ecb(k8, bytes(x ^ y for x, y in zip(h, b)))
    return b"".join(blocks)


def hint_grid(R, cap=4000):
    """a bounded, systematic list of byte strings built from the hinted patterns: every pattern at the start and at the
    end of every small hinted size (and of sizes one block around it), the rest zero / random — and when at most one
    byte is left free, every value of that byte"""
    if not HINTS or not HINTS.patterns:
        return []
    sizes = sorted({n for n in HINTS.lengths if n <= 72} | {n + d for n in HINTS.lengths if n <= 64 for d in (8, 16)} | {5, 8, 16})
    out = []
    for p in HINTS.patterns[:24]:
        for n in sizes:
            if n < len(p):
                continue
            free = n - len(p)
            for where in ("start", "end"):
                if free <= 1:
                    for b in (range(256) if free == 1 else [None]):
                        rest = b"" if b is None else bytes([b])
                        out.append(p + rest if where == "start" else rest + p)
                else:
                    for fill in (bytes(free), R.randbytes(free)):
                        out.append(p + fill if where == "start" else fill + p)
            if len(out) > cap * 3:
                break
    R.shuffle(out)
    return out[:cap]


def poison_key(k, R):
    """residue a state-carrying helper could keep under key `k`, its halves and its triple-length form: ragged ECB and CBC
    calls (partial trailing block), a bytearray IV used, rewritten in place with the last cipher block, used again and
    scrambled, a non-zero IV, an exception path, a check value, a MAC with an invalid method"""
    for kk in (k, k[:8], k[8:], k + k[:8]):
        iv = bytearray(8)                            # a chaining buffer: used as the IV, then rewritten in place

        def chained(kk=kk, iv=iv):
            out = tools.encrypt_tdes_cbc(kk, iv, R.randbytes(16))
            iv[:] = out[-8:]
            tools.encrypt_tdes_cbc(kk, iv, R.randbytes(8))
            iv[:] = R.randbytes(8)
        for fn in (chained,
                   lambda: tools.encrypt_tdes_ecb(kk, R.randbytes(R.choice([1, 3, 5, 7, 9, 13]))),
                   lambda: tools.encrypt_tdes_cbc(kk, R.randbytes(8), R.randbytes(R.choice([3, 11, 16]))),
                   lambda: tools.encrypt_tdes_cbc(kk, R.randbytes(5), b"12345678"),
                   lambda: tools.key_check_digits(kk, 3),
                   lambda: mac.mac_iso9797_3(kk[:8], kk[-8:], R.randbytes(5), 7)):
            try:
                fn()
            except Exception:  # noqa: BLE001
                pass


_HEXKEY = _re.compile(r"^(?:[0-9a-fA-F]{16}|[0-9a-fA-F]{32}|[0-9a-fA-F]{48})$")


def poison_line(line, R):
    """the poisoning sequence under every key-sized argument of an operation line, run immediately before the call
    (whatever a bounded cache has evicted since the prelude is there again)"""
    n = 0
    for tok in line.split()[1:]:
        if _HEXKEY.match(tok):
            poison_key(bytes.fromhex(tok), R)
            n += 1
            if n >= 4:
                break


class G:
    """generator state for one run: a small pool of keys and messages so that calls repeat arguments
    (which is what exposes caches keyed on too little)"""

    def __init__(self, rng):
        self.R = rng
        self.keys = [self.fresh_key() for _ in range(5)]
        h = rng.randbytes(8)
        self.keys.append(h + h)                    # equal halves: TDES degenerates to single DES
        self.keys.append(bytes(16))
        self.keys.append(WEAK_KEYS[0] + WEAK_KEYS[1])
        h2 = rng.randbytes(8)                      # halves related through single bit columns
        self.keys.append(h2 + bytes(b ^ 0x80 for b in h2))
        self.keys.append(h2 + bytes(b ^ 0x01 for b in h2))
        self.keys.append(h2 + bytes(b ^ (0x80 if i % 3 == 0 else 0) for i, b in enumerate(h2)))
        # halves that differ by a byte-aligned complement mask (the derivations xor counters and their complements into
        # the halves: such keys are where a derived key degenerates to equal halves); one with parity-bit noise on top
        h3 = rng.randbytes(8)
        for m in ("000000000000FFFF", "FFFF000000000000", "FFFFFFFFFFFFFFFF", "00000000000000FF"):
            self.keys.append(h3 + bytes(a ^ b for a, b in zip(h3, bytes.fromhex(m))))
        self.keys.append(h3 + bytes(a ^ b ^ (rng.randrange(2)) for a, b in zip(h3, bytes.fromhex("000000000000FFFF"))))
        # the masks the derivations themselves xor into a half (tree: 0^7 F0; common key: F0 / 0F at the third byte;
        # complement): a key or IV whose halves differ by one of them; a half that is all zero; a small integer
        h4 = rng.randbytes(8)
        self.structured = [h4 + bytes(a ^ b for a, b in zip(h4, bytes.fromhex(m))) for m in
                           ("00000000000000F0", "0000FF0000000000", "0000F00000000000", "00000F0000000000", "000000000000FFFF", "FFFFFFFFFFFFFFFF")]
        self.structured += [bytes(8) + h4, h4 + bytes(8), bytes(15) + b"\x01", bytes(8) + bytes(7) + b"\x01", b"\x01" + bytes(15),
                            bytes(16), b"\xf0" * 16, b"\xff" * 16]
        self.keys += [self.structured[0], self.structured[1], bytes(8) + h4, h4 + bytes(8)]
        self._kcv_halves = None
        self._grid = None
        self.msgs = [self.fresh_msg() for _ in range(6)]
        # parity variants of pooled keys (what a cache keyed on a parity-normalised key confuses)
        self.variants = []
        for k in self.keys[:5] + [bytes(16)]:
            self.variants.append(tools.adjust_key_parity(k))
            self.variants.append(bytes(b ^ 1 for b in k))
            self.variants.append(bytes(b & 0xFE for b in k))
            self.variants.append(bytes(b ^ 0x80 for b in k))          # differs in the top bits only
            self.variants.append(bytes(b & 0x7F for b in k))
        self.poison()

    def poison(self):
        """leave whatever residue a state-carrying helper could keep under the pooled keys: ragged ECB and
        CBC calls (partial trailing block), a non-zero IV, an exception path — before any case is run"""
        for k in list(self.keys):
            poison_key(k, self.R)

    def fresh_key(self, n=16):
        return self.R.randbytes(n)

    def key24(self):
        """a triple-length key in every component-equality pattern (K|K|K, K|K|K3, K1|K2|K1, K1|K2|K2, K1|K2|K3), the
        repeated component now and then differing in parity bits only"""
        R = self.R
        a, b, c = R.randbytes(8), R.randbytes(8), R.randbytes(8)
        pat = R.choice(["aaa", "aab", "aba", "aba", "abb", "abc", "abc"])
        comp = {"a": a, "b": b, "c": c}
        parts = [comp[ch] for ch in pat]
        if R.random() < .2:
            i = R.randrange(3)
            parts[i] = bytes(x ^ 1 for x in parts[i])
        return b"".join(parts)

    def structured16(self):
        """16 bytes for an IV / key position: usually one of the structured values, else random"""
        return self.R.choice(self.structured) if self.R.random() < .5 else self.R.randbytes(16)

    def kcv_equal_halves_key(self):
        """a 16-byte key whose two *different* halves have the same 3-byte check value as single-DES keys (birthday
        search over a few thousand halves on the real cipher); None when the search fails"""
        if self._kcv_halves is None:
            from cryptography.hazmat.primitives.ciphers import Cipher, algorithms, modes
            seen = {}
            self._kcv_halves = False
            for _ in range(12000):
                h = self.R.randbytes(8)
                c = Cipher(algorithms.TripleDES(h), modes.ECB()).encryptor().update(bytes(8))[:3]
                o = seen.get(c)
                if o is not None and bytes(b & 0xFE for b in o) != bytes(b & 0xFE for b in h):
                    self._kcv_halves = o + h
                    break
                seen[c] = h
        return self._kcv_halves or None

    def kcv_colliding_pair(self, nbytes=3, tries=40000):
        """two different 16-byte keys (not parity variants) with the same key check value — what a cache
        indexed by a check value confuses; birthday search on the real TDES"""
        from cryptography.hazmat.primitives.ciphers import Cipher, algorithms, modes
        seen = {}
        for _ in range(tries):
            k = self.R.randbytes(16)
            c = Cipher(algorithms.TripleDES(k), modes.ECB()).encryptor().update(bytes(8))[:nbytes]
            if c in seen and bytes(b & 0xFE for b in seen[c]) != bytes(b & 0xFE for b in k):
                return seen[c], k
            seen[c] = k
        return None

    def key(self):
        """a well-sized key, usually from the pool"""
        if self.R.random() < 0.02:
            self.poison()
        if HINTS and self.R.random() < 0.25:
            R = self.R
            a = R.randbytes(8)
            if R.random() < .5:                          # halves related by a mask made of a hinted pattern
                mask = hinted_bytes(R, 8, bytes(8))
                return a + bytes(x ^ y for x, y in zip(a, mask))
            return hinted_bytes(R, 16)
        c = self.R.random()
        if c < 0.02:
            k = self.kcv_equal_halves_key()
            if k:
                return k
        if c < 0.55:
            return self.R.choice(self.keys)
        if c < 0.62:                                # halves of a pooled key in swapped roles
            k = self.R.choice(self.keys[:5])
            return k[8:] + k[:8]
        if c < 0.70:                                # a pooled key up to parity bits
            return self.R.choice(self.variants)
        k = self.fresh_key()
        if self.R.random() < 0.3:
            self.keys[self.R.randrange(5)] = k
        return k

    def badkey(self):
        return self.R.randbytes(self.R.choice([0, 1, 7, 8, 15, 17, 24, 32]))

    def fresh_msg(self, maxlen=80):
        R = self.R
        if HINTS:
            if self._grid is None:
                self._grid = hint_grid(R)
            if self._grid and R.random() < .6:
                return self._grid.pop()
        if R.random() < .2:
            return traffic.message(R)                  # fields as real traffic carries them, not uniform contents
        n = R.choice([0, 1, 7, 8, 9, 15, 16, 17, 23, 24, 25, R.randrange(0, maxlen), R.randrange(0, maxlen)])
        if HINTS and R.random() < 0.5:
            if HINTS.lengths and R.random() < .5:
                big = [x for x in HINTS.lengths if 4096 < x <= 70000]     # larger sizes are the k-MiB generators' business
                small = [x for x in HINTS.lengths if x <= 4096]
                n = R.choice(big) if big and R.random() < .01 else (R.choice(small) if small else n)
                if R.random() < .3:
                    n = max(0, n + R.choice([-8, 8, 16, -1, 1, 7]))
            return hinted_bytes(R, n)
        m = R.randbytes(n)
        c = R.random()
        if c < .1 and n:
            m = m[:-1] + b"\x80"
        elif c < .2 and n > 2:
            m = m[:-R.randrange(2, min(n, 9))] + b"\x80"
            m = m + bytes(n - len(m))
        elif c < .25:
            m = bytes(n)
        elif c < .3 and n:
            m = m[:-1] + b"\x00"
        return m

    def msg(self, maxlen=80):
        if self.R.random() < 0.35:
            return self.R.choice(self.msgs)
        m = self.fresh_msg(maxlen)
        if self.R.random() < 0.3:
            self.msgs[self.R.randrange(len(self.msgs))] = m
        return m

    def sized(self, n, pbad=0.0):
        if self.R.random() < pbad:
            return self.R.randbytes(self.R.choice([0, max(0, n - 1), n + 1, 2 * n]))
        if HINTS and self.R.random() < 0.3:
            return hinted_bytes(self.R, n)
        return self.R.randbytes(n)

    def digits(self, n):
        if 12 <= n <= 19 and self.R.random() < .35:
            return traffic.card_number(self.R, n)         # check digit valid, zero-filled, or PAN + sequence number
        d = "".join(self.R.choice("0123456789") for _ in range(n))
        if HINTS and n and self.R.random() < 0.3 and (HINTS.digit_strs or HINTS.byte_values):
            R = self.R
            if HINTS.digit_strs and (not HINTS.byte_values or R.random() < .7):
                p = R.choice(HINTS.digit_strs)[:n]
            else:
                p = (str(R.choice(HINTS.byte_values) % 10) * R.randrange(1, n + 1))[:n]
            i = R.choice([0, n - len(p), R.randrange(0, n - len(p) + 1)])
            d = d[:i] + p + d[i + len(p):]
        return d

    def distinct_digits(self, n):
        """digits with few repeats so that nibble order is visible"""
        s = list("0123456789" * 2)
        self.R.shuffle(s)
        return "".join(s[:n])

    def formatted(self, digits):
        """a digit string as people and files carry it: grouped with blanks / tabs, or with a trailing newline"""
        R = self.R
        c = R.randrange(6)
        if c == 0:
            return " ".join(digits[i:i + 4] for i in range(0, len(digits), 4))
        if c == 1:
            return "\t".join(digits[i:i + 2] for i in range(0, len(digits), 2))
        if c == 2:
            return digits + R.choice(["\n", "\r\n", " ", "  "])
        if c == 3:
            return R.choice([" ", "  ", "\t"]) + digits
        if c == 4:
            k = R.randrange(0, len(digits) + 1) & ~1
            return digits[:k] + R.choice([" ", "  ", "\n"]) + digits[k:]
        return " ".join(digits[i:i + 2] for i in range(0, len(digits), 2))

    def form(self, s):
        """str or ASCII bytes form of a text value; now and then a str subclass whose own rendering differs
        from its content (a self-masking PAN / PIN type) or a str-mixin Enum member"""
        if s is None:
            return s
        c = self.R.random()
        if c < .47:
            return s
        if c < .5:
            return MaskedStr(s)
        if c < .52 and s.isidentifier() is False and s != "":
            return _enum.Enum("TextValue", {"V": s}, type=str).V
        return s.encode()


# --------------------------------------------------------------------------------------------
# op constructors: (protocol line, thunk on the real code)

def op_generate_ac(k, d, p, l, **kw):
    pt = PT[p] if p in PT else kw.get("obj")
    return Case(f"ac.generate_ac {hx(k)} {hx(d)} {p if p in PT else 'X'} {optn(l)}",
                lambda: ac.generate_ac(k, d, pt, l), kw.get("gen", "generate_ac"), kw.get("proj", "full"))


def op_mac3(k1, k2, d, p, l, **kw):
    return Case(f"mac.mac3 {hx(k1)} {hx(k2)} {hx(d)} {p} {optn(l)}",
                lambda: mac.mac_iso9797_3(k1, k2, d, p, l), kw.get("gen", "mac3"), kw.get("proj", "full"))


def op_arpc1(k, q, rc, **kw):
    return Case(f"ac.arpc1 {hx(k)} {hx(q)} {hx(rc)}", lambda: ac.generate_arpc_1(k, q, rc),
                kw.get("gen", "arpc1"), kw.get("proj", "full"))


def op_arpc2(k, q, csu, p, **kw):
    return Case(f"ac.arpc2 {hx(k)} {hx(q)} {hx(csu)} {opt(p)}", lambda: ac.generate_arpc_2(k, q, csu, p),
                kw.get("gen", "arpc2"), kw.get("proj", "full"))


def op_mk(which, k, pan, psn, **kw):
    fn = kd.derive_icc_mk_a if which == "a" else kd.derive_icc_mk_b
    return Case(f"kd.mk_{which} {hx(k)} {SB(pan)} {SB(psn)}", lambda: fn(k, pan, psn),
                kw.get("gen", "mk_" + which), kw.get("proj", "full"))


def op_common_sk(k, r, ba=False, **kw):
    return Case(f"kd.common_sk {hx(k)} {hx(r)}",
                lambda: kd.derive_common_sk(k, bytearray(r) if ba else r),
                kw.get("gen", "common_sk"), kw.get("proj", "full"))


def op_visa_sk(k, a, **kw):
    return Case(f"kd.visa_sk {hx(k)} {hx(a)}", lambda: kd.derive_visa_sm_sk(k, a),
                kw.get("gen", "visa_sk"), kw.get("proj", "full"))


def op_tree_sk(k, a, h, b, iv, **kw):
    return Case(f"kd.tree_sk {hx(k)} {hx(a)} {h} {b} {hx(iv)}",
                lambda: kd.derive_emv2000_tree_sk(k, a, h, b, iv),
                kw.get("gen", "tree_sk"), kw.get("proj", "full"))


def op_command_mac(k, c, l, **kw):
    return Case(f"sm.command_mac {hx(k)} {hx(c)} {optn(l)}", lambda: sm.generate_command_mac(k, c, l),
                kw.get("gen", "command_mac"), kw.get("proj", "full"))


def op_encrypt(k, d, t, **kw):
    et = ET[t] if t in ET else kw.get("obj")
    return Case(f"sm.encrypt {hx(k)} {hx(d)} {t if t in ET else 'X'}",
                lambda: sm.encrypt_command_data(k, d, et), kw.get("gen", "encrypt"), kw.get("proj", "full"))


def op_vis_pin(k, p, c, **kw):
    return Case(f"sm.vis_pin {hx(k)} {SB(p)} {SB(c)}", lambda: sm.format_vis_pin_block(k, p, c),
                kw.get("gen", "vis_pin"), kw.get("proj", "full"))


def op_iso2_pin(p, **kw):
    return Case(f"sm.iso2_pin {SB(p)}", lambda: sm.format_iso9564_2_pin_block(p),
                kw.get("gen", "iso2_pin"), kw.get("proj", "full"))


def op_cvc3(k, t, a, u, **kw):
    return Case(f"cvv.cvc3 {hx(k)} {hx(t)} {hx(a)} {hx(u)}", lambda: cvv.generate_cvc3(k, t, a, u),
                kw.get("gen", "cvc3"), kw.get("proj", "full"))


def op_xor(a, b, **kw):
    return Case(f"tools.xor {hx(a)} {hx(b)}", lambda: tools.xor(a, b), kw.get("gen", "xor"))


def op_parity(v, **kw):
    return Case(f"tools.odd_parity {v}", lambda: tools.odd_parity(v), kw.get("gen", "odd_parity"))


def byteslike_forms(b):
    """(description, factory) of objects that bytearray() turns into the same bytes: buffers, sequences, one-shot iterables"""
    import array
    out = [("bytes", lambda: bytes(b)), ("bytearray", lambda: bytearray(b)), ("memoryview", lambda: memoryview(bytes(b))),
           ("list", lambda: list(b)), ("tuple", lambda: tuple(b)), ("array('B')", lambda: array.array("B", b)),
           ("iterator", lambda: iter(bytes(b))), ("generator", lambda: (x for x in bytes(b))), ("map", lambda: map(int, bytes(b))),
           ("reversed", lambda: reversed(bytes(b)[::-1]))]
    if len(b) % 2 == 0 and len(b):
        out.append(("memoryview.cast('H')", lambda: memoryview(bytes(b)).cast("H")))
    if len(b) % 4 == 0 and len(b):
        out.append(("array('I') buffer", lambda: array.array("I", bytes(b))))
    return out


def op_adjust(k, **kw):
    return Case(f"tools.adjust_key_parity {hx(k)}", lambda: tools.adjust_key_parity(k), kw.get("gen", "adjust"))


def op_kcv(k, n, **kw):
    return Case(f"tools.kcv {hx(k)} {n}", lambda: tools.key_check_digits(k, n), kw.get("gen", "kcv"))


def op_ecb(k, d, **kw):
    return Case(f"tools.ecb {hx(k)} {hx(d)}", lambda: tools.encrypt_tdes_ecb(k, d), kw.get("gen", "ecb"))


def op_cbc(k, iv, d, **kw):
    return Case(f"tools.cbc {hx(k)} {hx(iv)} {hx(d)}", lambda: tools.encrypt_tdes_cbc(k, iv, d), kw.get("gen", "cbc"))


def op_pad(which, d, n, **kw):
    fn = mac.pad_iso9797_1 if which == 1 else mac.pad_iso9797_2
    return Case(f"mac.pad{which} {hx(d)} {optn(n)}", lambda: fn(d, n), kw.get("gen", f"pad{which}"))


def op_fromhex(s, **kw):
    return Case(f"py.fromhex {S(s)}", lambda: bytes.fromhex(s), kw.get("gen", "py.fromhex"))


def op_sha1(m, **kw):
    return Case(f"py.sha1 {hx(m)}", lambda: hashlib.sha1(m).digest(), kw.get("gen", "py.sha1"))


def reused_buffer_cases(contents, line_of, call_of, gen):
    """the same bytearray object, rewritten in place between calls (a memo holding a reference to a
    caller's buffer returns a stale value); `call_of(buf)` calls the real code with the shared buffer,
    `line_of(content)` is the protocol line for that content"""
    buf = bytearray(contents[0])
    out = []
    for c in contents:
        def call(c=c):
            buf[:] = c
            return call_of(buf)
        out.append(Case(line_of(bytes(c)), call, gen))
    return out


def shared_object_cases(content, times, line, call_of, gen):
    """one bytearray handed to the real code `times` times and never touched by the caller in between (a retry,
    a second card): every call must see — and leave — the same content"""
    buf = bytearray(content)
    return [Case(line, lambda: call_of(buf), gen) for _ in range(times)]


class Recorder:
    """the recording conversion function of C18: logs (tag, value), returns tag-bytes ‖ ':' ‖ value"""

    def __init__(self):
        self.log = []

    def __call__(self, t, v):
        self.log.append((t, bytes(v)))
        try:
            tb = bytes.fromhex(t)
        except Exception:  # noqa: BLE001
            tb = b"??" + str(t).encode()
        return tb + b":" + bytes(v)

    def render(self):
        return "[" + ",".join(t + "=" + v.hex().upper() for t, v in self.log) + "]"


class ListRecorder(list):
    """the same recording function as a callable that keeps its log in itself: it is falsy until first called,
    like an empty registry of per-tag converters"""

    def __call__(self, t, v):
        self.append((t, bytes(v)))
        try:
            tb = bytes.fromhex(t)
        except Exception:  # noqa: BLE001
            tb = b"??" + str(t).encode()
        return tb + b":" + bytes(v)

    @property
    def log(self):
        return list(self)

    def render(self):
        return "[" + ",".join(t + "=" + v.hex().upper() for t, v in self) + "]"


def make_recorder(form):
    """0: plain callable object, 1: falsy callable, 2: bound method, 3: closure; all carry .log / .render"""
    if form % 4 == 1:
        return ListRecorder()
    rec = Recorder()
    if form % 4 == 2:
        f = rec.__call__
    elif form % 4 == 3:
        def f(t, v, _r=rec):
            return _r(t, v)
    else:
        return rec
    # functions cannot carry the log themselves: wrap so that the harness can read it
    class _Fn:
        def __init__(self, fn, rec):
            self.fn, self.rec = fn, rec
        log = property(lambda self: self.rec.log)
        def render(self):
            return self.rec.render()
    return _Fn(f, rec)


def conv_arg(rec):
    """the object handed to tlv.decode as convert="""
    return getattr(rec, "fn", rec)


class RaisingConv:
    """a conversion function whose k-th call raises the given exception object (calls are counted from 1)"""

    def __init__(self, k, exc):
        self.k, self.exc, self.calls = k, exc, 0

    def __call__(self, t, v):
        self.calls += 1
        if self.calls == self.k:
            raise self.exc
        return bytes.fromhex(t) + b":" + bytes(v)


def cst_partial(items, k, flatten):
    """the top-level tree at the moment the k-th primitive object is about to be stored (decoder's own order)"""
    root = {}
    cnt = [0]

    class _Stop(Exception):
        pass

    def walk(its, d):
        for tag, _l, (kind, body) in its:
            name = tag.hex().upper()
            if kind == "C":
                if flatten:
                    walk(body, d)
                else:
                    d[name] = {}
                    walk(body, d[name])
            else:
                cnt[0] += 1
                if cnt[0] == k:
                    raise _Stop
                d[name] = tag + b":" + body
    try:
        walk(items, root)
    except _Stop:
        pass
    return root


def op_decode(data, fl, si, conv=False, as_bytearray=False, **kw):
    flags = ("f" if fl else "") + ("s" if si else "") + ("c" if conv else "")
    form = kw.get("rec_form", (len(data) * 7 + sum(data[:4]) + fl + 2 * si) % 4)

    def call():
        arg = (memoryview(bytes(data)) if as_bytearray == "view" else bytearray(data)) if as_bytearray else data
        if not conv:
            return tlv.decode(arg, flatten=fl, simple=si)
        rec = make_recorder(form)
        try:
            r = tlv.decode(arg, flatten=fl, simple=si, convert=conv_arg(rec))
        except tlv.DecodeError as e:
            # the partial tree and the log travel in the error answer
            e2 = e
            raise _DecErrWithLog(e2, rec.render())
        return (r, rec.render())
    return Case(f"tlv.decode {hx(data)} {flags or '-'}", call, kw.get("gen", "decode"), kw.get("proj", "nokind"),
                meta={"data": bytes(data)})


class _DecErrWithLog(tlv.DecodeError):
    def __init__(self, e, log):
        tlv.DecodeError.__init__(self, e.msg, e.tag, e.offset, e.tlv)
        self.log = log


def top_level_form(tree):
    """the top-level tree as some other Mapping, chosen by its content (deterministic): C10 speaks about mappings, and
    the order a Mapping presents its items in is *mapping order* whatever its class"""
    if not isinstance(tree, dict) or type(tree) is not dict:
        return tree
    import types
    import zlib
    h = zlib.crc32(repr(sorted(map(str, tree))).encode()) % 16
    if h == 0:
        return types.MappingProxyType(tree)
    if h == 1:
        return collections.UserDict(tree)
    if h == 2:
        return collections.ChainMap(tree)            # one map: iteration order is the dict's
    if h == 3:
        return LazyMap(_plain(tree)) if all(not isinstance(v, collections.abc.Mapping) or isinstance(v, dict) for v in tree.values()) else tree
    return tree


def op_encode(tree, si, **kw):
    obj = top_level_form(tree)
    return Case(f"tlv.encode {'s' if si else '-'} {tree_tokens(tree)}", lambda: tlv.encode(obj, simple=si),
                kw.get("gen", "encode"), kw.get("proj", "full"), meta={"tree": tree})


# --------------------------------------------------------------------------------------------
# searched rare-branch PAN/PSN pairs for option B

def sha_decimals(pan, psn):
    t = pan + psn
    t = ("0" + t) if len(t) % 2 else t
    h = hashlib.sha1(bytes.fromhex(t)).hexdigest()
    return h


def _extreme_chunk(args):
    base, n, psn, limit = args
    out = []
    sha1 = hashlib.sha1
    dele = str.maketrans("", "", "abcdef")
    for i in range(n):
        pan = str(base + i)
        t = pan + psn
        if len(t) % 2:
            t = "0" + t
        h = sha1(bytes.fromhex(t)).hexdigest()
        nd = len(h.translate(dele))
        if nd <= limit:
            out.append((nd, pan, psn, h))
    return out


def extreme_pairs(rng, per_worker, limit=11, nproc=16):
    """PAN/PSN pairs (17..19-digit PANs) whose SHA-1 digest has at most `limit` decimal digits - the far tail of the
    top-up branch (nine or more letters needed at seven) — by a parallel search over consecutive PANs from random bases;
    (pairs sorted by decimal count, hashes tried)"""
    import multiprocessing as mp
    jobs = []
    for _ in range(nproc):
        nd = rng.choice([17, 18, 19])
        base = rng.randrange(10 ** (nd - 1), 10 ** nd - per_worker - 1)
        jobs.append((base, per_worker, "%02d" % rng.randrange(100), limit))
    with mp.Pool(nproc) as pool:
        parts = pool.map(_extreme_chunk, jobs)
    found = sorted(x for p in parts for x in p)
    return found, per_worker * nproc


def rare_pairs(rng, want, letters_needed=True):
    """PAN/PSN pairs (PAN 17..19 digits) whose SHA-1 has fewer than 16 decimal digits; keeps searching
    until every letter a-f takes part in some top-up and some top-up does not start at the digest's
    first characters"""
    out = []
    seen_letters = set()
    tries = 0
    while (len(out) < want or (letters_needed and len(seen_letters) < 6)) and tries < 3_000_000:
        tries += 1
        p = "".join(rng.choice("0123456789") for _ in range(rng.choice([17, 18, 19])))
        s = "".join(rng.choice("0123456789") for _ in range(2))
        h = sha_decimals(p, s)
        nd = sum(c in "0123456789" for c in h)
        if nd < 16:
            need = 16 - nd
            used = [c for c in h if c in "abcdef"][:need]
            seen_letters.update(used)
            out.append((p, s))
    return out, tries, sorted(seen_letters)


# --------------------------------------------------------------------------------------------
# TLV concrete-syntax generator

def gen_tag(R, constructed=None, maxlen=5):
    n = R.choice([1, 1, 1, 2, 2, 3, 4, maxlen])
    if R.random() < .012:                                # very long tag names: around the 127/128 and 255/256/257 marks
        n = R.choice([64, 127, 128, 129, 255, 256, 257, 258, 300, 1000])
    cls = R.choice([0x00, 0x40, 0x80, 0xC0])
    c = (0x20 if constructed else 0x00) if constructed is not None else R.choice([0, 0x20])
    if n == 1:
        num = R.randrange(0, 31)
        return bytes([cls | c | num])
    body = [R.randrange(1, 128) | 0x80 for _ in range(n - 2)] + [R.randrange(0, 128)]
    return bytes([cls | c | 0x1F] + body)


def ber_len(n):
    if n < 128:
        return bytes([n])
    k = 1
    while n >= 256 ** k:
        k += 1
    return bytes([0x80 | k]) + n.to_bytes(k, "big")


def len_field(R, n, simple, canonical=False):
    """some accepted length form for value length n (None if not expressible)"""
    if simple:
        return bytes([n]) if n <= 255 else None
    if canonical:
        return ber_len(n)
    c = R.random()
    if c < .55:
        return ber_len(n)
    k = 1
    while n >= 256 ** k:
        k += 1
    if n == 0 and c < .65:
        return b"\x80"                                 # 0x80: zero length-bytes, value length 0
    pad = R.choice([0, 0, 1, 2, 3, R.randrange(0, 21)])
    k2 = min(127, k + pad)
    if n < 128 and c < .8:
        k2 = max(1, k2)
    return bytes([0x80 | k2]) + n.to_bytes(k2, "big")


def gen_cst(R, depth, simple, canonical=False, max_items=4, dup=0.15, maxval=12):
    """a list of items (tag, lenbytes, ('P', value) | ('C', kids))"""
    items = []
    n = R.choice([0, 1, 1, 2, 2, 3, max_items])
    tags_here = []
    for _ in range(n):
        cons = depth > 0 and R.random() < .4
        if tags_here and R.random() < dup and not canonical:
            cand = [t for t in tags_here if bool(t[0] & 0x20) == cons]
            tag = R.choice(cand) if cand else gen_tag(R, cons)
        else:
            tag = gen_tag(R, cons)
            if canonical:
                while tag in tags_here:
                    tag = gen_tag(R, cons)
        tags_here.append(tag)
        if cons:
            kids = gen_cst(R, depth - 1, simple, canonical, max_items, dup, maxval)
            body = print_cst(kids)
            lf = len_field(R, len(body), simple, canonical)
            if lf is None:
                kids = []; body = b""; lf = len_field(R, 0, simple, canonical)
            items.append((tag, lf, ("C", kids)))
        else:
            ln = R.choice([0, 1, 2, 3, R.randrange(0, maxval), R.randrange(0, maxval)])
            if R.random() < .04:
                ln = R.choice([126, 127, 128, 129, 254, 255, 256, 257])
            v = R.randbytes(ln)
            lf = len_field(R, ln, simple, canonical)
            if lf is None:
                v = v[:255]; lf = bytes([len(v)])
            items.append((tag, lf, ("P", v)))
    return items


def print_cst(items):
    return b"".join(t + l + (b[1] if b[0] == "P" else print_cst(b[1])) for t, l, b in items)


def cst_nested(items):
    d = {}
    for tag, _, body in items:
        d[tag.hex().upper()] = body[1] if body[0] == "P" else cst_nested(body[1])
    return d


def cst_prims(items):
    for tag, _, body in items:
        if body[0] == "P":
            yield tag.hex().upper(), body[1]
        else:
            yield from cst_prims(body[1])


def cst_flat(items):
    d = {}
    for t, v in cst_prims(items):
        d[t] = v
    return d


def cst_canonical(items):
    """minimal lengths and no repeated tag within one template"""
    seen = set()
    for t, l, b in items:
        if t in seen:
            return False
        seen.add(t)
        n = len(b[1]) if b[0] == "P" else len(print_cst(b[1]))
        if l != ber_len(n):
            return False
        if b[0] == "C" and not cst_canonical(b[1]):
            return False
    return True


def mutate(R, x):
    """truncate / flip / splice / length tweak"""
    if not x:
        return bytes([R.choice(ALPHABET)])
    c = R.random()
    b = bytearray(x)
    if c < .35:
        return bytes(b[:R.randrange(0, len(b))])
    if c < .6:
        i = R.randrange(len(b)); b[i] = R.choice(ALPHABET + [R.randrange(256)]); return bytes(b)
    if c < .75:
        i = R.randrange(len(b)); b[i] = (b[i] + R.choice([1, 255])) & 0xFF; return bytes(b)
    if c < .9:
        i = R.randrange(len(b) + 1); return bytes(b[:i]) + bytes(R.choice(ALPHABET) for _ in range(R.randrange(1, 4))) + bytes(b[i:])
    i = R.randrange(len(b)); j = R.randrange(i, len(b) + 1)
    return bytes(b[:i] + b[j:])


def nth_string(length, idx):
    out = []
    for _ in range(length):
        out.insert(0, ALPHABET[idx % 14]); idx //= 14
    return bytes(out)


# --------------------------------------------------------------------------------------------
# trees for the encoder

def case_mix(R, s):
    return "".join(ch.lower() if R.random() < .5 else ch.upper() for ch in s)


def spaced(R, hexs):
    """insert whitespace where bytes.fromhex permits it: between pairs, at the ends"""
    ws = [" ", "\t", "\n", "\r", "\x0b", "\x0c", "  "]
    pairs = [hexs[i:i + 2] for i in range(0, len(hexs), 2)]
    out = R.choice(["", "", R.choice(ws)])
    for p in pairs:
        out += p + R.choice(["", "", "", R.choice(ws)])
    return out


BAD_TAG_NAMES = ["", "9", "9C0", "GG", "9c 0", "9 C", "9F", "9F80", "9F8180", "9C00", "9F0200", "1F", "FF",
                 "E0E0", "-9C", "0x9C", "9С", " 9C", "9C ", "9F 02 ", "5F2A00", "é", "１２"]
BAD_VALUE_STRS = ["0", "GG", "0 1", "1 2", "é", "0x01", "012", " 01"]
BOUNDARY_LENS = [0, 1, 2, 126, 127, 128, 129, 254, 255, 256, 257]
BIG_LENS = [65534, 65535, 65536, 65537]


class HexStr(str):
    """a str subclass, as hex-string wrappers in applications are"""


class RawBytes(bytes):
    pass


class RawArray(bytearray):
    pass


class LazyMap(collections.abc.Mapping):
    """a Mapping view that builds each child template afresh on every access (nothing keeps the child alive)"""

    def __init__(self, spec):
        self._spec = spec

    def _make(self, v):
        if isinstance(v, dict):
            return {k: self._make(x) if isinstance(x, dict) else x for k, x in v.items()}
        return v

    def __getitem__(self, k):
        return self._make(self._spec[k])

    def __iter__(self):
        return iter(self._spec)

    def __len__(self):
        return len(self._spec)

    def items(self):
        for k in self._spec:
            yield k, self._make(self._spec[k])


def _plain(d):
    """a plain-dict copy of a generated tree (nested wrappers opened)"""
    return {k: _plain(v) if isinstance(v, collections.abc.Mapping) else v for k, v in d.items()}


def gen_tree(R, depth, simple, wellformed=True, boundary=False, big=False):
    """returns a dict tree for tlv.encode; keys may differ only in case/whitespace (distinct str keys)"""
    t = {}
    n = R.choice([0, 1, 1, 2, 3, 4])
    for _ in range(n):
        cons = depth > 0 and R.random() < .4
        tag = gen_tag(R, cons).hex()
        c = R.random()
        name = tag.upper() if c < .4 else tag.lower() if c < .6 else case_mix(R, tag)
        if R.random() < .15:
            name = spaced(R, name)
        if name in t:
            continue
        if cons:
            sub = gen_tree(R, depth - 1, simple, wellformed, boundary, big)
            k = R.random()
            if k < .12:
                import types
                sub = types.MappingProxyType(sub)
            elif k < .2:
                import collections
                sub = collections.OrderedDict(sub)
            elif k < .28:
                import collections
                sub = collections.UserDict(sub)
            elif k < .36:
                sub = LazyMap(_plain(sub))
            t[name] = sub
        else:
            if big and R.random() < .3:
                ln = R.choice(BIG_LENS)
            elif boundary and R.random() < .5:
                ln = R.choice(BOUNDARY_LENS)
            else:
                ln = R.choice([0, 1, 2, 3, 5, R.randrange(0, 20)])
            if simple and wellformed:
                ln = min(ln, 40)
            v = R.randbytes(ln) if ln < 1000 else bytes([R.randrange(256)]) * ln
            k = R.random()
            sub_cls = R.random() < .12
            if k < .45:
                t[name] = RawBytes(v) if sub_cls else v
            elif k < .6:
                t[name] = RawArray(v) if sub_cls else bytearray(v)
            else:
                hs = v.hex()
                hs = hs.upper() if R.random() < .5 else case_mix(R, hs)
                if R.random() < .15 and ln < 200:
                    hs = spaced(R, hs)
                t[name] = HexStr(hs) if sub_cls else hs
    return t


def inject_fault(R, t, simple):
    """place one malformed element somewhere in the tree; returns the offending key or None"""
    paths = []

    def walk(d, depth):
        paths.append(d)
        for v in d.values():
            if isinstance(v, dict):
                walk(v, depth + 1)
    walk(t, 0)
    d = R.choice(paths)
    kind = R.choice(["badtag", "badtag", "wrongtype_prim", "wrongtype_cons", "badstr", "simple_long", "cons_gets_bytes"])
    pos = R.randrange(0, len(d) + 1)
    items = list(d.items())
    if kind == "badtag":
        k = R.choice(BAD_TAG_NAMES); v = R.choice([b"\x01", "01", {}, 5])
    elif kind == "wrongtype_prim":
        k = gen_tag(R, False).hex().upper(); v = R.choice([5, None, 1.5, [1], (b"a",), {"9C": b""}, {}, True])
    elif kind == "wrongtype_cons" or kind == "cons_gets_bytes":
        k = gen_tag(R, True).hex().upper(); v = R.choice([b"\x01\x02", "0102", bytearray(b"\x01"), 5, None, [("9C", b"")]])
    elif kind == "badstr":
        k = gen_tag(R, False).hex().upper(); v = R.choice(BAD_VALUE_STRS)
    else:
        if not simple:
            k = gen_tag(R, False).hex().upper(); v = R.choice(BAD_VALUE_STRS)
        else:
            k = gen_tag(R, False).hex().upper(); v = bytes(R.choice([256, 257, 300, 1000]))
    if k in d:
        return None
    items.insert(pos, (k, v))
    d.clear()
    d.update(items)
    return k
