"""Cold-start probes, run in a fresh interpreter: the first use of the library happens (a) from several
threads at once with a tiny switch interval, or (b) with the call stack almost exhausted so that the first
call is cut short by RecursionError.  Afterwards ordinary calls must still satisfy the parity predicate and
agree with values computed in a quiet interpreter.  Prints one JSON object.

usage: coldstart.py <repo> <mode: threads|stack> <seed>
"""
import json
import sys
import threading
import warnings

warnings.simplefilter("ignore")
repo, mode, seed = sys.argv[1], sys.argv[2], int(sys.argv[3])
sys.path.insert(0, repo)
sys.dont_write_bytecode = True
import random  # noqa: E402
from pyemv import kd, tools  # noqa: E402  (imported at normal depth; only the first *calls* are stressed)

R = random.Random(seed)
keys = [R.randbytes(16) for _ in range(6)] + [bytes(16), b"\xff" * 16]
atcs = [R.randbytes(2) for _ in range(4)]


def odd(k):
    return isinstance(k, bytes) and len(k) == 16 and all(bin(b).count("1") % 2 for b in k)


def calls():
    out = []
    for k in keys:
        out.append(("adjust", k.hex(), tools.adjust_key_parity(k)))
        for a in atcs:
            out.append(("visa_sk", k.hex() + a.hex(), kd.derive_visa_sm_sk(k, a)))
        out.append(("common_sk", k.hex(), kd.derive_common_sk(k, bytes(8))))
        out.append(("mk_a", k.hex(), kd.derive_icc_mk_a(k, "1234567890123456", "01")))
    return out


problems = []
if mode == "threads":
    sys.setswitchinterval(1e-6)
    n = 8
    barrier = threading.Barrier(n)
    res = [None] * n

    def work(i):
        barrier.wait()
        try:
            res[i] = calls()
        except Exception as e:  # noqa: BLE001
            res[i] = e
    ths = [threading.Thread(target=work, args=(i,)) for i in range(n)]
    for t in ths:
        t.start()
    for t in ths:
        t.join()
    sys.setswitchinterval(0.005)
    for r in res:
        if isinstance(r, Exception):
            problems.append(f"first concurrent use raised {type(r).__name__}: {r}")
else:
    def dive(d):
        if d == 0:
            return calls()
        return dive(d - 1)
    import inspect
    lim = sys.getrecursionlimit()
    base = len(inspect.stack(0))
    for slack in range(1, 60):
        try:
            dive(lim - slack - base)
        except RecursionError:
            continue
        except Exception as e:  # noqa: BLE001
            problems.append(f"first use near the stack limit raised {type(e).__name__}: {e}")
        break
after = calls()
for name, arg, k in after:
    if name == "adjust":
        if len(k) != 16 or not all(bin(b).count("1") % 2 for b in k):
            problems.append(f"after a {mode} cold start adjust_key_parity({arg}) = {k.hex()} is not odd parity")
    elif not odd(k):
        problems.append(f"after a {mode} cold start {name}({arg}) = {k.hex()} is not a 16-byte odd-parity key")
print(json.dumps({"mode": mode, "problems": problems[:5], "values": [[n, a, k.hex()] for n, a, k in after]}))
